package e2e

import (
	"bytes"
	"context"
	"crypto/sha256"
	"fmt"
	"net"
	"os"
	"strconv"
	"strings"
	"testing"
	"testing/synctest"
	"time"

	mqPkts "github.com/eclipse/paho.mqtt.golang/packets"
	"github.com/energomonitor/bisquitt/client"
	"github.com/energomonitor/bisquitt/gateway"
	pkts1 "github.com/energomonitor/bisquitt/packets1"
	"github.com/energomonitor/bisquitt/topics"
	"github.com/energomonitor/bisquitt/util"
	"github.com/pion/udp"
	"verifexp/simrt"
)

func wr(c net.Conn, p mqPkts.ControlPacket) {
	var buf bytes.Buffer
	p.Write(&buf)
	c.Write(buf.Bytes())
}

func broker(w *simrt.World, c net.Conn, name string) {
	subs := false
	n := 0
	for {
		p, err := mqPkts.ReadPacket(c)
		if err != nil {
			w.Logf("broker:"+name, "read err %v", err)
			c.Close()
			return
		}
		switch m := p.(type) {
		case *mqPkts.ConnectPacket:
			wr(c, mqPkts.NewControlPacket(mqPkts.Connack))
		case *mqPkts.SubscribePacket:
			a := mqPkts.NewControlPacket(mqPkts.Suback).(*mqPkts.SubackPacket)
			a.MessageID = m.MessageID
			a.ReturnCodes = []byte{m.Qoss[0]}
			wr(c, a)
			subs = true
		case *mqPkts.PublishPacket:
			if m.Qos == 1 {
				a := mqPkts.NewControlPacket(mqPkts.Puback).(*mqPkts.PubackPacket)
				a.MessageID = m.MessageID
				wr(c, a)
			}
			if m.Qos == 2 {
				a := mqPkts.NewControlPacket(mqPkts.Pubrec).(*mqPkts.PubrecPacket)
				a.MessageID = m.MessageID
				wr(c, a)
			}
			if subs {
				for i := 0; i < 3; i++ {
					n++
					e := mqPkts.NewControlPacket(mqPkts.Publish).(*mqPkts.PublishPacket)
					e.TopicName = fmt.Sprintf("x/new%d", n%4)
					e.Qos = byte(i)
					e.MessageID = uint16(100 + n)
					e.Payload = m.Payload
					wr(c, e)
				}
			}
		case *mqPkts.PubrelPacket:
			a := mqPkts.NewControlPacket(mqPkts.Pubcomp).(*mqPkts.PubcompPacket)
			a.MessageID = m.MessageID
			wr(c, a)
		case *mqPkts.PubrecPacket:
			a := mqPkts.NewControlPacket(mqPkts.Pubrel).(*mqPkts.PubrelPacket)
			a.MessageID = m.MessageID
			wr(c, a)
		case *mqPkts.PingreqPacket:
			wr(c, mqPkts.NewControlPacket(mqPkts.Pingresp))
		case *mqPkts.DisconnectPacket:
			c.Close()
			return
		}
	}
}

func oneRun(t *testing.T, seed int64, yp float64) (canon string, trace string, parks int) {
	func() {
		defer func() {
			if r := recover(); r != nil {
				canon += fmt.Sprintf("\nBUBBLE-PANIC %v", r)
			}
		}()
		synctest.Test(t, func(t *testing.T) {
			w := simrt.NewWorld(seed, yp)
			defer w.Close()
			simrt.ErrClosedListener = udp.ErrClosedListener
			nb := 0
			w.SetBrokerDial(func(a string) (net.Conn, error) {
				nb++
				g, b := w.Pair(fmt.Sprintf("mq%d", nb), false, "gw", a)
				name := fmt.Sprintf("b%d", nb)
				lat := func(e string) func(i int, b []byte) time.Duration {
					return func(i int, b []byte) time.Duration { return time.Duration(1e5 + w.Keyed("mlat", e, i)*5e6) }
				}
				g.Latency = lat(name + "g")
				b.Latency = lat(name + "b")
				go broker(w, b, name)
				return g, nil
			})
			ctx, cancel := context.WithCancel(context.Background())
			gw := gateway.NewGateway(util.NoOpLogger{}, &gateway.GatewayConfig{
				MqttBrokerAddress: &net.TCPAddr{IP: net.IPv4(10, 9, 9, 9), Port: 1883}, PredefinedTopics: topics.PredefinedTopics{},
				RetryDelay: 10 * time.Second, RetryCount: 4,
			})
			gwDone := make(chan error, 1)
			go func() { gwDone <- gw.ListenAndServe(ctx, "127.0.0.1:1883") }()
			for ci := 0; ci < 2; ci++ {
				ci := ci
				go func() {
					time.Sleep(time.Duration(ci)*137*time.Millisecond + time.Second)
					cn := fmt.Sprintf("app%d", ci)
					c := client.NewClient(util.NoOpLogger{}, &client.ClientConfig{ClientID: cn, RetryDelay: 10 * time.Second, RetryCount: 4,
						ConnectTimeout: 20 * time.Second, KeepAlive: 30 * time.Second, CleanSession: true})
					if err := c.Dial("127.0.0.1:1883"); err != nil {
						w.Logf(cn, "dial: %v", err)
						return
					}
					w.Logf(cn, "connect: %v", c.Connect())
					w.Logf(cn, "sub: %v", c.Subscribe("x/#", 2, func(cl *client.Client, topic string, p *pkts1.Publish) {
						w.Logf(cn+":h:"+topic+":"+string(p.Data), "handler q%d", p.QOS)
					}))
					w.Logf(cn, "reg: %v", c.Register("x/y"))
					for q := 0; q < 3; q++ {
						w.Logf(cn, "pub: %v", c.Publish("x/y", []byte(fmt.Sprintf("hello%d", q)), uint8(q), false))
						time.Sleep(45 * time.Second)
					}
					w.Logf(cn, "disc: %v", c.Disconnect())
					w.Logf(cn, "wait: %v", c.Wait())
				}()
			}
			w.Run(200 * time.Second)
			cancel()
			w.Run(205 * time.Second)
			w.Drain()
			time.Sleep(5 * time.Second)
			synctest.Wait()
			canon = strings.Join(w.CanonLog(), "\n")
			trace = strings.Join(w.Trace, "\n")
			parks = w.Parks
		})
	}()
	return
}

func h(s string) string { return fmt.Sprintf("%x", sha256.Sum256([]byte(s)))[:10] }

func TestE2E(t *testing.T) {
	yp, _ := strconv.ParseFloat(os.Getenv("YP"), 64)
	n := 40
	if v := os.Getenv("N"); v != "" {
		n, _ = strconv.Atoi(v)
	}
	start := time.Now()
	nd, ndt, tp := 0, 0, 0
	outcomes := map[string]int{}
	for seed := int64(1); seed <= int64(n); seed++ {
		c1, t1, p := oneRun(t, seed, yp)
		c2, t2, _ := oneRun(t, seed, yp)
		tp += p
		if c1 != c2 {
			nd++
			if nd == 1 && os.Getenv("DUMP") != "" {
				os.WriteFile("/tmp/exp2/a.log", []byte(c1), 0644)
				os.WriteFile("/tmp/exp2/b.log", []byte(c2), 0644)
			}
		}
		if t1 != t2 {
			ndt++
		}
		nerr := strings.Count(c1, "handler")
		outcomes[fmt.Sprintf("handlers=%d panic=%v", nerr, strings.Contains(c1, "PANIC"))]++
		if os.Getenv("SHOWBAD") != "" && nerr == 9 {
			os.WriteFile("/tmp/exp2/bad.log", []byte(c1), 0644)
			os.WriteFile("/tmp/exp2/bad.trace", []byte(t1), 0644)
			t.Logf("bad seed %d", seed)
			return
		}
		if seed == 1 && os.Getenv("SHOW") != "" {
			t.Log("\n" + c1)
		}
	}
	t.Logf("yp=%v runs=%d (x2) wall=%v parks/run=%d nondet-canon=%d nondet-trace=%d outcomes=%v", yp, n, time.Since(start), tp/n, nd, ndt, outcomes)
}
