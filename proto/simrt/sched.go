// Package simrt: prototype cooperative scheduler, sync replacements, time and net seams.
package simrt

import (
	"container/heap"
	"context"
	"fmt"
	"hash/fnv"
	"io"
	"math/rand"
	"net"
	"os"
	"sort"
	"sync"
	"sync/atomic"
	"testing/synctest"
	"time"
)

type parked struct {
	site string
	ch   chan struct{}
	seq  int
}

type event struct {
	at  time.Duration
	seq int
	key string
	run func()
}
type evheap []*event

func (h evheap) Len() int { return len(h) }
func (h evheap) Less(i, j int) bool {
	if h[i].at != h[j].at {
		return h[i].at < h[j].at
	}
	return h[i].key < h[j].key
}
func (h evheap) Swap(i, j int) { h[i], h[j] = h[j], h[i] }
func (h *evheap) Push(x any)   { *h = append(*h, x.(*event)) }
func (h *evheap) Pop() any     { o := *h; n := len(o); x := o[n-1]; *h = o[:n-1]; return x }

// World owns scheduling, virtual time origin, event queue and the event log.
type World struct {
	Seed      int64
	T0        time.Time
	mu        sync.Mutex // momentary only
	parked    []*parked
	pseq      int
	wake      chan struct{}
	q         evheap
	qseq      int
	rng       *rand.Rand // driver-only
	YieldProb float64    // per-site enable probability
	siteOn    map[string]bool
	Parks     int
	Log       []string
	Trace     []string
	listeners map[string]*Listener
	dialTCP   func(addr string) (net.Conn, error)
	chanSeq   map[string]int
	inDriver  atomic.Bool
}

var cur atomic.Pointer[World]

func NewWorld(seed int64, yieldProb float64) *World {
	w := &World{Seed: seed, T0: time.Now(), wake: make(chan struct{}, 1), rng: rand.New(rand.NewSource(seed)),
		YieldProb: yieldProb, siteOn: map[string]bool{}, listeners: map[string]*Listener{}, chanSeq: map[string]int{}}
	w.inDriver.Store(true)
	cur.Store(w)
	return w
}
func (w *World) Close() { cur.Store(nil) }

func (w *World) Now() time.Duration { return time.Since(w.T0) }

// keyed hash -> [0,1)
func (w *World) Keyed(parts ...any) float64 {
	h := fnv.New64a()
	fmt.Fprint(h, w.Seed)
	for _, p := range parts {
		fmt.Fprint(h, "|", p)
	}
	x := h.Sum64()
	x ^= x >> 33
	x *= 0xff51afd7ed558ccd
	x ^= x >> 33
	return float64(x>>11) / float64(1<<53)
}

func (w *World) Logf(ch string, f string, a ...any) {
	w.mu.Lock()
	n := w.chanSeq[ch]
	w.chanSeq[ch] = n + 1
	w.Log = append(w.Log, fmt.Sprintf("%012d %s #%04d %s", w.Now(), ch, n, fmt.Sprintf(f, a...)))
	w.mu.Unlock()
}

// CanonLog: sorted by (time, channel, per-channel seq) - insensitive to cross-channel races within an instant.
func (w *World) CanonLog() []string {
	w.mu.Lock()
	defer w.mu.Unlock()
	l := append([]string(nil), w.Log...)
	sort.Strings(l)
	return l
}

func (w *World) siteEnabled(site string) bool {
	if w.YieldProb <= 0 {
		return false
	}
	return w.Keyed("site", site) < w.YieldProb
}

func Yield(site string) {
	w := cur.Load()
	if w == nil || w.inDriver.Load() || !w.siteEnabled(site) {
		return
	}
	w.park(site)
}

func (w *World) park(site string) {
	p := &parked{site: site, ch: make(chan struct{})}
	w.mu.Lock()
	w.pseq++
	p.seq = w.pseq
	w.parked = append(w.parked, p)
	w.Parks++
	w.mu.Unlock()
	w.poke()
	<-p.ch
}

func (w *World) poke() {
	select {
	case w.wake <- struct{}{}:
	default:
	}
}

// At schedules fn at absolute virtual time (callable from any goroutine).
func (w *World) At(at time.Duration, key string, fn func()) {
	w.mu.Lock()
	w.qseq++
	heap.Push(&w.q, &event{at: at, seq: w.qseq, key: key, run: fn})
	w.mu.Unlock()
	w.poke()
}

// Run is the driver loop; must be called from the bubble's root goroutine.
func (w *World) Run(until time.Duration) {
	for {
		w.inDriver.Store(false)
		synctest.Wait()
		w.inDriver.Store(true)
		w.mu.Lock()
		if len(w.parked) > 0 {
			sort.SliceStable(w.parked, func(i, j int) bool { return w.parked[i].site < w.parked[j].site })
			i := w.rng.Intn(len(w.parked))
			p := w.parked[i]
			w.parked = append(w.parked[:i], w.parked[i+1:]...)
			w.Trace = append(w.Trace, fmt.Sprintf("%d %s", w.Now(), p.site))
			w.mu.Unlock()
			w.inDriver.Store(false)
			close(p.ch)
			continue
		}
		now := w.Now()
		if now >= until {
			w.mu.Unlock()
			w.inDriver.Store(true)
			return
		}
		next := until
		if len(w.q) > 0 && w.q[0].at < next {
			next = w.q[0].at
		}
		if len(w.q) > 0 && w.q[0].at <= now {
			ev := heap.Pop(&w.q).(*event)
			w.mu.Unlock()
			w.inDriver.Store(false)
			ev.run()
			continue
		}
		w.mu.Unlock()
		tm := time.NewTimer(next - now)
		w.inDriver.Store(false)
		select {
		case <-w.wake:
		case <-tm.C:
		}
		w.inDriver.Store(true)
		tm.Stop()
	}
}

// Drain disables yields and releases everything parked.
func (w *World) Drain() {
	w.inDriver.Store(true)
	w.YieldProb = 0
	for {
		synctest.Wait()
		w.mu.Lock()
		if len(w.parked) == 0 {
			w.mu.Unlock()
			return
		}
		ps := w.parked
		w.parked = nil
		w.mu.Unlock()
		for _, p := range ps {
			close(p.ch)
		}
	}
}

// ---- sync replacements ----

type Mutex struct{ held atomic.Bool }

func (m *Mutex) Lock() {
	for {
		if m.held.CompareAndSwap(false, true) {
			return
		}
		w := cur.Load()
		if w == nil {
			time.Sleep(time.Microsecond)
			continue
		}
		w.park("mutex-wait")
	}
}
func (m *Mutex) Unlock() { m.held.Store(false) }

type RWMutex struct {
	Mutex
}

func (m *RWMutex) RLock()   { m.Lock() }
func (m *RWMutex) RUnlock() { m.Unlock() }

// Map: insertion-ordered deterministic replacement for sync.Map (subset).
type Map struct {
	mu   sync.Mutex
	keys []any
	m    map[any]any
}

func (m *Map) Load(k any) (any, bool) {
	m.mu.Lock()
	defer m.mu.Unlock()
	v, ok := m.m[k]
	return v, ok
}
func (m *Map) Store(k, v any) {
	m.mu.Lock()
	defer m.mu.Unlock()
	if m.m == nil {
		m.m = map[any]any{}
	}
	if _, ok := m.m[k]; !ok {
		m.keys = append(m.keys, k)
	}
	m.m[k] = v
}
func (m *Map) Delete(k any) {
	m.mu.Lock()
	defer m.mu.Unlock()
	if _, ok := m.m[k]; ok {
		delete(m.m, k)
		for i, x := range m.keys {
			if x == k {
				m.keys = append(m.keys[:i], m.keys[i+1:]...)
				break
			}
		}
	}
}
func (m *Map) Range(f func(k, v any) bool) {
	m.mu.Lock()
	keys := append([]any(nil), m.keys...)
	m.mu.Unlock()
	for _, k := range keys {
		m.mu.Lock()
		v, ok := m.m[k]
		m.mu.Unlock()
		if ok && !f(k, v) {
			return
		}
	}
}

// ---- time seams ----
func jitter(site string) time.Duration {
	w := cur.Load()
	if w == nil {
		return 0
	}
	w.mu.Lock()
	n := w.chanSeq["tj:"+site]
	w.chanSeq["tj:"+site] = n + 1
	w.mu.Unlock()
	return time.Duration(w.Keyed("tj", site, n) * 1000) // <1us
}
func AfterFunc(d time.Duration, f func()) *time.Timer { return time.AfterFunc(d+jitter("af"), f) }
func After(d time.Duration) <-chan time.Time          { return time.After(d + jitter("a")) }
func NewTicker(d time.Duration) *time.Ticker          { return time.NewTicker(d + jitter("tk")) }

// ---- net seams ----
type addr string

func (a addr) Network() string { return "sim" }
func (a addr) String() string  { return string(a) }

type timeoutErr struct{}

func (timeoutErr) Error() string   { return "i/o timeout" }
func (timeoutErr) Timeout() bool   { return true }
func (timeoutErr) Temporary() bool { return true }

// End is one end of a simulated link.
type End struct {
	w        *World
	name     string
	packet   bool
	mu       sync.Mutex
	inbox    [][]byte
	rdl      time.Time
	notify   chan struct{}
	closedCh chan struct{}
	closed   bool
	peer     *End
	nsent    int
	local    string
	remote   string
	// Latency returns delay for message i (keyed); <0 => drop
	Latency func(i int, b []byte) time.Duration
	OnClose func()
}

func (w *World) Pair(name string, packet bool, a, b string) (*End, *End) {
	x := &End{w: w, name: name + ">", packet: packet, notify: make(chan struct{}, 1), closedCh: make(chan struct{}), local: a, remote: b}
	y := &End{w: w, name: name + "<", packet: packet, notify: make(chan struct{}, 1), closedCh: make(chan struct{}), local: b, remote: a}
	x.peer, y.peer = y, x
	return x, y
}

func (e *End) Read(p []byte) (int, error) {
	for {
		e.mu.Lock()
		if len(e.inbox) > 0 {
			b := e.inbox[0]
			n := copy(p, b)
			if e.packet || n == len(b) {
				e.inbox = e.inbox[1:]
			} else {
				e.inbox[0] = b[n:]
			}
			e.mu.Unlock()
			return n, nil
		}
		closed := e.closed
		dl := e.rdl
		e.mu.Unlock()
		if closed {
			return 0, net.ErrClosed
		}
		select {
		case <-e.peer.closedCh:
			if !e.packet {
				return 0, io.EOF
			}
		default:
		}
		var tc <-chan time.Time
		var tm *time.Timer
		if !dl.IsZero() {
			d := time.Until(dl)
			if d <= 0 {
				return 0, os.ErrDeadlineExceeded
			}
			tm = time.NewTimer(d)
			tc = tm.C
		}
		var pc <-chan struct{}
		if !e.packet {
			pc = e.peer.closedCh
		}
		select {
		case <-e.notify:
		case <-tc:
			return 0, os.ErrDeadlineExceeded
		case <-e.closedCh:
		case <-pc:
		}
		if tm != nil {
			tm.Stop()
		}
	}
}

func (e *End) Write(p []byte) (int, error) {
	e.mu.Lock()
	c := e.closed
	i := e.nsent
	e.nsent++
	e.mu.Unlock()
	if c {
		return 0, net.ErrClosed
	}
	b := append([]byte(nil), p...)
	e.w.Logf(e.name, "send %x", b)
	lat := time.Millisecond
	if e.Latency != nil {
		lat = e.Latency(i, b)
	}
	if lat < 0 {
		return len(p), nil
	}
	peer := e.peer
	e.w.At(e.w.Now()+lat, fmt.Sprintf("%s#%d", e.name, i), func() {
		peer.mu.Lock()
		peer.inbox = append(peer.inbox, b)
		peer.mu.Unlock()
		select {
		case peer.notify <- struct{}{}:
		default:
		}
	})
	return len(p), nil
}

func (e *End) Close() error {
	e.mu.Lock()
	if !e.closed {
		e.closed = true
		close(e.closedCh)
		e.w.Logf(e.name, "close")
	}
	e.mu.Unlock()
	return nil
}
func (e *End) LocalAddr() net.Addr                { return addr(e.local) }
func (e *End) RemoteAddr() net.Addr               { return addr(e.remote) }
func (e *End) SetDeadline(t time.Time) error      { return e.SetReadDeadline(t) }
func (e *End) SetReadDeadline(t time.Time) error  { e.mu.Lock(); e.rdl = t; e.mu.Unlock(); return nil }
func (e *End) SetWriteDeadline(t time.Time) error { return nil }

// Listener: hands out per-peer conns.
type Listener struct {
	w      *World
	addr   string
	ch     chan net.Conn
	closed chan struct{}
	once   sync.Once
	ErrClosed error
}

func (l *Listener) Accept() (net.Conn, error) {
	select {
	case c := <-l.ch:
		return c, nil
	case <-l.closed:
		return nil, l.ErrClosed
	}
}
func (l *Listener) Close() error   { l.once.Do(func() { close(l.closed) }); return nil }
func (l *Listener) Addr() net.Addr { return addr(l.addr) }

// UDPListenConfig replaces pion/udp ListenConfig.
type UDPListenConfig struct{}

var ErrClosedListener error // set by harness to udp.ErrClosedListener

func (c *UDPListenConfig) Listen(network string, laddr *net.UDPAddr) (net.Listener, error) {
	w := cur.Load()
	l := &Listener{w: w, addr: laddr.String(), ch: make(chan net.Conn, 16), closed: make(chan struct{}), ErrClosed: ErrClosedListener}
	w.mu.Lock()
	w.listeners[laddr.String()] = l
	w.mu.Unlock()
	return l, nil
}

// NetDial replaces net.Dial for the client ("udp").
func NetDial(network, address string) (net.Conn, error) {
	w := cur.Load()
	w.mu.Lock()
	l := w.listeners[address]
	n := w.chanSeq["dial"]
	w.chanSeq["dial"] = n + 1
	w.mu.Unlock()
	if l == nil {
		return nil, fmt.Errorf("sim: no listener on %s", address)
	}
	peer := fmt.Sprintf("10.0.0.%d:5000", n+1)
	c, g := w.Pair("sn:"+peer, true, peer, address)
	lat := func(e *End) func(i int, b []byte) time.Duration {
		return func(i int, b []byte) time.Duration {
			return time.Duration(1e6 + w.Keyed("lat", e.name, i)*20e6)
		}
	}
	c.Latency = lat(c)
	g.Latency = lat(g)
	l.ch <- g
	return c, nil
}

// Dialer replaces net.Dialer for the gateway's broker connection.
type Dialer struct{ Timeout time.Duration }

func (d *Dialer) DialContext(ctx context.Context, network, address string) (net.Conn, error) {
	w := cur.Load()
	if w.dialTCP == nil {
		return nil, fmt.Errorf("sim: connection refused")
	}
	return w.dialTCP(address)
}
func (w *World) SetBrokerDial(f func(addr string) (net.Conn, error)) { w.dialTCP = f }

// SignalNotify replaces os/signal.Notify: signals are not simulated.
func SignalNotify(c chan<- os.Signal, sig ...os.Signal) {}

// ---- select control ----

// SelOrder returns the order in which the n communication cases of the select at site are probed.
// Keyed by (site, per-site counter) so that it does not depend on who asks first.
func SelOrder(site string, n int) []int {
	r := make([]int, n)
	for i := range r {
		r[i] = i
	}
	w := cur.Load()
	if w == nil {
		return r
	}
	w.mu.Lock()
	k := w.chanSeq["sel:"+site]
	w.chanSeq["sel:"+site] = k + 1
	w.mu.Unlock()
	for i := n - 1; i > 0; i-- {
		j := int(w.Keyed("sel", site, k, i) * float64(i+1))
		r[i], r[j] = r[j], r[i]
	}
	return r
}

func ZeroOf[T any](ch <-chan T) (z T) { return }

// TryRecv: non-blocking receive. ready=false means nothing was received.
func TryRecv[T any](ch <-chan T) (v T, ok bool, ready bool) {
	select {
	case v, ok = <-ch:
		return v, ok, true
	default:
		return v, false, false
	}
}

func TrySend[T any](ch chan<- T, x T) bool {
	select {
	case ch <- x:
		return true
	default:
		return false
	}
}
