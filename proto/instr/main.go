// instr v2: text-level instrumentation into an overlay.
package main

import (
	"encoding/json"
	"fmt"
	"go/ast"
	"go/parser"
	"go/token"
	"os"
	"path/filepath"
	"sort"
	"strings"
)

type edit struct {
	off, del int
	text     string
}

var subst = map[string]string{
	"sync.Mutex": "Mutex", "sync.RWMutex": "RWMutex", "sync.Map": "Map",
	"time.AfterFunc": "AfterFunc", "time.After": "After", "time.NewTicker": "NewTicker",
	"net.Dial": "NetDial", "net.Dialer": "Dialer",
	"github.com/pion/udp.ListenConfig": "UDPListenConfig",
	"os/signal.Notify": "SignalNotify",
}
var keepAlive = map[string]string{
	"sync": "var _ %s.Once", "os/signal": "var _ = %s.Stop", "time": "var _ %s.Duration", "net": "var _ %s.Conn", "github.com/pion/udp": "var _ = %s.ErrClosedListener",
}

func main() {
	out := os.Args[1]
	os.MkdirAll(out, 0755)
	ov := map[string]string{}
	nsites := 0
	nsel := 0
	for _, f := range os.Args[2:] {
		src, err := os.ReadFile(f)
		if err != nil {
			panic(err)
		}
		fset := token.NewFileSet()
		af, err := parser.ParseFile(fset, f, src, 0)
		if err != nil {
			panic(err)
		}
		// local import names
		imp := map[string]string{} // local name -> path
		for _, is := range af.Imports {
			p := strings.Trim(is.Path.Value, `"`)
			name := filepath.Base(p)
			if is.Name != nil {
				name = is.Name.Name
			}
			imp[name] = p
		}
		rel := strings.TrimPrefix(f, "/repo/")
		var edits []edit
		addYields := func(list []ast.Stmt) {
			for _, s := range list {
				switch s.(type) {
				case *ast.CaseClause, *ast.CommClause:
					continue
				}
				p := fset.Position(s.Pos())
				edits = append(edits, edit{off: p.Offset, text: fmt.Sprintf("simrt.Yield(%q); ", fmt.Sprintf("%s:%d", rel, p.Line))})
				nsites++
			}
		}
		ast.Inspect(af, func(n ast.Node) bool {
			switch x := n.(type) {
			case *ast.RangeStmt:
				// no yields lexically inside range bodies (map iteration order is not ours);
				// still apply substitutions there.
				ast.Inspect(x, func(m ast.Node) bool {
					if se, ok := m.(*ast.SelectorExpr); ok {
						if id, ok := se.X.(*ast.Ident); ok && id.Obj == nil {
							if path, ok := imp[id.Name]; ok {
								if repl, ok := subst[path+"."+se.Sel.Name]; ok {
									st := fset.Position(se.Pos()).Offset
									en := fset.Position(se.End()).Offset
									edits = append(edits, edit{off: st, del: en - st, text: "simrt." + repl})
								}
							}
						}
					}
					return true
				})
				return false
			case *ast.BlockStmt:
				addYields(x.List)
			case *ast.CaseClause:
				addYields(x.Body)
			case *ast.CommClause:
				addYields(x.Body)
			case *ast.SelectorExpr:
				if id, ok := x.X.(*ast.Ident); ok && id.Obj == nil {
					if path, ok := imp[id.Name]; ok {
						if repl, ok := subst[path+"."+x.Sel.Name]; ok {
							st := fset.Position(x.Pos()).Offset
							en := fset.Position(x.End()).Offset
							edits = append(edits, edit{off: st, del: en - st, text: "simrt." + repl})
						}
					}
				}
			}
			return true
		})
		pkgEnd := fset.Position(af.Name.End()).Offset
		edits = append(edits, edit{off: pkgEnd, text: `; import simrt "verifexp/simrt"`})
		sort.SliceStable(edits, func(i, j int) bool {
			if edits[i].off != edits[j].off {
				return edits[i].off > edits[j].off
			}
			return edits[i].del > edits[j].del
		})
		b := append([]byte(nil), src...)
		for _, e := range edits {
			b = append(b[:e.off:e.off], append([]byte(e.text), b[e.off+e.del:]...)...)
		}
		tail := "\nvar _ = simrt.Yield\n"
		for name, p := range imp {
			if k, ok := keepAlive[p]; ok {
				tail += fmt.Sprintf(k, name) + "\n"
			}
		}
		dst := filepath.Join(out, strings.ReplaceAll(strings.TrimPrefix(f, "/"), "/", "__"))
		full := append(b, tail...)
		if os.Getenv("NOSELRW") == "" {
			var n int
			full, n = rewriteSelects(f, full, rel)
			nsel += n
			if n > 0 {
				// generics in the helpers need language >= go1.18 for this file only (loop-var semantics unchanged < 1.22).
				// Put the constraint on line 1 without shifting lines: join with the first line if it is a comment/package line.
				full = append([]byte("//go:build go1.18\n"), full...)
			}
		}
		os.WriteFile(dst, full, 0644)
		ov[f] = dst
	}
	for _, extra := range strings.Split(os.Getenv("OVERLAY_EXTRA"), ",") {
		if kv := strings.SplitN(extra, "=", 2); len(kv) == 2 {
			ov[kv[0]] = kv[1]
		}
	}
	j, _ := json.MarshalIndent(map[string]any{"Replace": ov}, "", " ")
	os.WriteFile(filepath.Join(out, "overlay.json"), j, 0644)
	fmt.Fprintf(os.Stderr, "instrumented %d files, %d yield sites, %d selects rewritten\n", len(ov), nsites, nsel)
}
