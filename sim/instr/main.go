// instr: text-level instrumentation of the current /repo tree into a `go build -overlay`.
//
//	instr -repo /repo -out <dir> [-cli]
//
// Pass 1 inserts simrt.Yield("relpath:line") before every statement (never lexically inside a
// `for … range` body) and substitutes identifiers by import path + name. Pass 2 (selrw.go)
// rewrites selects with >= 2 communication cases into probe-in-seed-order-then-block.
// Line numbers are preserved. The rewrite is purely syntactic and total on valid Go.
package main

import (
	"encoding/json"
	"flag"
	"fmt"
	"go/ast"
	"go/parser"
	"go/token"
	"os"
	"os/exec"
	"path/filepath"
	"sort"
	"strings"
)

type edit struct {
	off, del int
	text     string
}

var subst = map[string]string{
	"sync.Mutex": "simrt.Mutex", "sync.RWMutex": "simrt.RWMutex", "sync.Map": "simrt.Map",
	"time.AfterFunc": "simrt.AfterFunc", "time.After": "simrt.After", "time.NewTicker": "simrt.NewTicker", "time.NewTimer": "simrt.NewTimer",
	"net.Dial": "simrt.NetDial", "net.Dialer": "simrt.Dialer",
	"context.WithCancel": "simrt.WithCancel", "context.WithTimeout": "simrt.WithTimeout", "context.WithDeadline": "simrt.WithDeadline",
	"github.com/pion/udp.ListenConfig":                        "simrt.UDPListenConfig",
	"os/signal.Notify":                                        "simrt.SignalNotify",
	"github.com/energomonitor/bisquitt/packets.MaxTopicAlias": "simrt.MaxTopicAlias()",
}
var keepAlive = map[string]string{
	"sync": "var _ %s.Once", "os/signal": "var _ = %s.Stop", "time": "var _ %s.Duration", "net": "var _ %s.Conn",
	"context": "var _ %s.Context",
	"github.com/pion/udp":                       "var _ = %s.ErrClosedListener",
	"github.com/energomonitor/bisquitt/packets": "var _ = %s.MinTopicAlias",
}

func main() {
	repo := flag.String("repo", "/repo", "repository root")
	out := flag.String("out", "", "output directory")
	cli := flag.Bool("cli", false, "also instrument cmd/*/actions.go and application.go")
	extra := flag.String("extra", "", "comma separated orig=replacement overlay entries")
	flag.Parse()
	if *out == "" {
		fmt.Fprintln(os.Stderr, "instr: -out required")
		os.Exit(2)
	}
	os.MkdirAll(*out, 0755)
	var files []string
	for _, d := range []string{"gateway", "client", "transactions"} {
		m, _ := filepath.Glob(filepath.Join(*repo, d, "*.go"))
		for _, f := range m {
			if !strings.HasSuffix(f, "_test.go") {
				files = append(files, f)
			}
		}
	}
	for _, f := range []string{"util/client_state.go", "util/conn_with_context.go", "util/id_sequence.go"} {
		p := filepath.Join(*repo, f)
		if _, err := os.Stat(p); err == nil {
			files = append(files, p)
		}
	}
	if *cli {
		m, _ := filepath.Glob(filepath.Join(*repo, "cmd", "*", "*.go"))
		for _, f := range m {
			if !strings.HasSuffix(f, "_test.go") {
				files = append(files, f)
			}
		}
	}
	sort.Strings(files)
	relOf := map[string]string{}
	ov := map[string]string{}
	var sites []string
	nsel := 0
	for _, f := range files {
		src, err := os.ReadFile(f)
		if err != nil {
			fmt.Fprintln(os.Stderr, "instr:", err)
			os.Exit(2)
		}
		if hasBuildConstraint(src) {
			continue
		}
		rel, _ := filepath.Rel(*repo, f)
		if r, ok := relOf[f]; ok {
			rel = r
		}
		res, fs, n, err := instrument(f, rel, src)
		if err != nil {
			fmt.Fprintln(os.Stderr, "instr:", err)
			os.Exit(2)
		}
		sites = append(sites, fs...)
		nsel += n
		dst := filepath.Join(*out, strings.ReplaceAll(rel, "/", "__"))
		if err := os.WriteFile(dst, res, 0644); err != nil {
			fmt.Fprintln(os.Stderr, "instr:", err)
			os.Exit(2)
		}
		ov[f] = dst
	}
	for _, e := range strings.Split(*extra, ",") {
		if kv := strings.SplitN(e, "=", 2); len(kv) == 2 {
			ov[kv[0]] = kv[1]
		}
	}
	j, _ := json.MarshalIndent(map[string]any{"Replace": ov}, "", " ")
	os.WriteFile(filepath.Join(*out, "overlay.json"), j, 0644)
	os.WriteFile(filepath.Join(*out, "sites.txt"), []byte(strings.Join(sites, "\n")+"\n"), 0644)
	fmt.Fprintf(os.Stderr, "instr: %d files, %d yield sites, %d selects rewritten\n", len(ov), len(sites), nsel)
}

func hasBuildConstraint(src []byte) bool {
	for _, l := range strings.Split(string(src), "\n") {
		t := strings.TrimSpace(l)
		if strings.HasPrefix(t, "//go:build") || strings.HasPrefix(t, "// +build") {
			return true
		}
		if strings.HasPrefix(t, "package ") {
			return false
		}
	}
	return false
}

func instrument(f, rel string, src []byte) ([]byte, []string, int, error) {
	fset := token.NewFileSet()
	af, err := parser.ParseFile(fset, f, src, 0)
	if err != nil {
		return nil, nil, 0, err
	}
	imp := map[string]string{} // local name -> path
	for _, is := range af.Imports {
		p := strings.Trim(is.Path.Value, `"`)
		name := filepath.Base(p)
		if name == "v2" || name == "v3" {
			name = filepath.Base(filepath.Dir(p))
		}
		if is.Name != nil {
			name = is.Name.Name
		}
		imp[name] = p
	}
	var edits []edit
	var sites []string
	trySubst := func(se *ast.SelectorExpr) {
		id, ok := se.X.(*ast.Ident)
		if !ok || id.Obj != nil {
			return
		}
		path, ok := imp[id.Name]
		if !ok {
			return
		}
		if repl, ok := subst[path+"."+se.Sel.Name]; ok {
			st := fset.Position(se.Pos()).Offset
			en := fset.Position(se.End()).Offset
			edits = append(edits, edit{off: st, del: en - st, text: repl})
		}
	}
	addYields := func(list []ast.Stmt) {
		for _, s := range list {
			switch s.(type) {
			case *ast.CaseClause, *ast.CommClause:
				continue
			}
			p := fset.Position(s.Pos())
			site := fmt.Sprintf("%s:%d", rel, p.Line)
			edits = append(edits, edit{off: p.Offset, text: fmt.Sprintf("simrt.Yield(%q); ", site)})
			sites = append(sites, site)
			// a plain blocking receive: the goroutine parks again as soon as it wakes up
			if isRecvStmt(s) {
				edits = append(edits, edit{off: fset.Position(s.End()).Offset, text: fmt.Sprintf("; simrt.Resume(%q)", site+":recv")})
			}
		}
	}
	ast.Inspect(af, func(n ast.Node) bool {
		switch x := n.(type) {
		case *ast.RangeStmt:
			// no yields lexically inside range bodies (map iteration order is not ours); substitutions still apply.
			ast.Inspect(x, func(m ast.Node) bool {
				if se, ok := m.(*ast.SelectorExpr); ok {
					trySubst(se)
				}
				return true
			})
			return false
		case *ast.BlockStmt:
			addYields(x.List)
		case *ast.CaseClause:
			addYields(x.Body)
		case *ast.CommClause:
			if x.Comm != nil {
				// the goroutine was (possibly) blocked in the select: it parks as soon as it wakes up
				p := fset.Position(x.Colon)
				edits = append(edits, edit{off: p.Offset + 1, text: fmt.Sprintf(" simrt.Resume(%q);", fmt.Sprintf("%s:%d:comm", rel, p.Line))})
			}
			addYields(x.Body)
		case *ast.GoStmt:
			if fl, ok := x.Call.Fun.(*ast.FuncLit); ok {
				// a new goroutine does nothing before the driver lets it
				p := fset.Position(fl.Body.Lbrace)
				edits = append(edits, edit{off: p.Offset + 1, text: fmt.Sprintf(" simrt.Resume(%q);", fmt.Sprintf("%s:%d:go", rel, p.Line))})
			}
		case *ast.SelectorExpr:
			trySubst(x)
		}
		return true
	})
	pkgEnd := fset.Position(af.Name.End()).Offset
	edits = append(edits, edit{off: pkgEnd, text: `; import simrt "verifsim/simrt"`})
	b := applyEdits(src, edits)
	tail := "\nvar _ = simrt.Yield\n"
	names := make([]string, 0, len(imp))
	for name := range imp {
		names = append(names, name)
	}
	sort.Strings(names)
	for _, name := range names {
		if k, ok := keepAlive[imp[name]]; ok && name != "_" && name != "." {
			tail += fmt.Sprintf(k, name) + "\n"
		}
	}
	full := append(b, tail...)
	full, n := rewriteSelects(f, full, rel)
	if n > 0 {
		// generic helpers need language >= go1.18 for this file only (loop-var semantics unchanged < 1.22).
		full = append([]byte("//go:build go1.18\n//line "+f+":1\n"), full...)
	}
	return full, sites, n, nil
}

func applyEdits(src []byte, edits []edit) []byte {
	sort.SliceStable(edits, func(i, j int) bool {
		if edits[i].off != edits[j].off {
			return edits[i].off > edits[j].off
		}
		return edits[i].del > edits[j].del
	})
	b := append([]byte(nil), src...)
	for _, e := range edits {
		b = append(b[:e.off:e.off], append([]byte(e.text), b[e.off+e.del:]...)...)
	}
	return b
}

// goListDir asks the go command (the one on PATH / GOTOOLCHAIN in force) for a package directory.
func goListDir(repo, pkg string) string {
	gobin := os.Getenv("VERIF_GOBIN")
	if gobin == "" {
		gobin = "go"
	}
	cmd := exec.Command(gobin, "list", "-f", "{{.Dir}}", pkg)
	cmd.Dir = repo
	out, err := cmd.Output()
	if err != nil {
		return ""
	}
	return strings.TrimSpace(string(out))
}

func isRecvStmt(s ast.Stmt) bool {
	isRecv := func(e ast.Expr) bool {
		u, ok := e.(*ast.UnaryExpr)
		return ok && u.Op == token.ARROW
	}
	switch x := s.(type) {
	case *ast.ExprStmt:
		return isRecv(x.X)
	case *ast.AssignStmt:
		return len(x.Rhs) == 1 && isRecv(x.Rhs[0])
	}
	return false
}
