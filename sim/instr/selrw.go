package main

import (
	"fmt"
	"go/ast"
	"go/parser"
	"go/token"
	"strings"
)

// rewriteSelects: pass 2. Every select with >=2 communication clauses that is not labeled becomes
// "probe each case non-blockingly in a driver-chosen order, then block", with bodies kept in place.
// Unrecognised forms are left untouched.
func rewriteSelects(filename string, src []byte, rel string) ([]byte, int) {
	fset := token.NewFileSet()
	af, err := parser.ParseFile(fset, filename, src, 0)
	if err != nil {
		panic(fmt.Errorf("pass2 parse %s: %v", filename, err))
	}
	off := func(p token.Pos) int { return fset.Position(p).Offset }
	text := func(n ast.Node) string { return string(src[off(n.Pos()):off(n.End())]) }
	labeled := map[*ast.SelectStmt]bool{}
	ast.Inspect(af, func(n ast.Node) bool {
		if l, ok := n.(*ast.LabeledStmt); ok {
			if s, ok := l.Stmt.(*ast.SelectStmt); ok {
				labeled[s] = true
			}
		}
		return true
	})
	var edits []edit
	count := 0
	ast.Inspect(af, func(n ast.Node) bool {
		sel, ok := n.(*ast.SelectStmt)
		if !ok || labeled[sel] {
			return true
		}
		ncomm := 0
		for _, c := range sel.Body.List {
			if c.(*ast.CommClause).Comm != nil {
				ncomm++
			}
		}
		if ncomm < 2 {
			return true
		}
		id := count
		pfx := fmt.Sprintf("_ss%d", id)
		line := fset.Position(sel.Pos()).Line
		var pro, probe, blk strings.Builder
		type hdr struct {
			c    *ast.CommClause
			text string
		}
		var hdrs []hdr
		okAll := true
		idx := 0
		for _, cs := range sel.Body.List {
			c := cs.(*ast.CommClause)
			if c.Comm == nil {
				fmt.Fprintf(&blk, "default: %s = %d; ", pfx, len(sel.Body.List))
				hdrs = append(hdrs, hdr{c, fmt.Sprintf("case %d:", len(sel.Body.List))})
				continue
			}
			i := idx
			idx++
			switch cm := c.Comm.(type) {
			case *ast.ExprStmt:
				u, ok := cm.X.(*ast.UnaryExpr)
				if !ok || u.Op != token.ARROW {
					okAll = false
					break
				}
				fmt.Fprintf(&pro, "%s_c%d := %s; ", pfx, i, text(u.X))
				fmt.Fprintf(&probe, "case %d: if _, _, r := simrt.TryRecv(%s_c%d); r { %s = %d }; ", i, pfx, i, pfx, i)
				fmt.Fprintf(&blk, "case <-%s_c%d: %s = %d; ", pfx, i, pfx, i)
				hdrs = append(hdrs, hdr{c, fmt.Sprintf("case %d:", i)})
			case *ast.AssignStmt:
				if len(cm.Rhs) != 1 || len(cm.Lhs) > 2 {
					okAll = false
					break
				}
				u, ok := cm.Rhs[0].(*ast.UnaryExpr)
				if !ok || u.Op != token.ARROW {
					okAll = false
					break
				}
				fmt.Fprintf(&pro, "%s_c%d := %s; %s_v%d, %s_k%d := simrt.ZeroOf(%s_c%d), false; ", pfx, i, text(u.X), pfx, i, pfx, i, pfx, i)
				fmt.Fprintf(&probe, "case %d: if v, k, r := simrt.TryRecv(%s_c%d); r { %s_v%d, %s_k%d, %s = v, k, %d }; ", i, pfx, i, pfx, i, pfx, i, pfx, i)
				fmt.Fprintf(&blk, "case %s_v%d, %s_k%d = <-%s_c%d: %s = %d; ", pfx, i, pfx, i, pfx, i, pfx, i)
				bind := fmt.Sprintf("%s %s %s_v%d", text(cm.Lhs[0]), cm.Tok.String(), pfx, i)
				if len(cm.Lhs) == 2 {
					bind = fmt.Sprintf("%s, %s %s %s_v%d, %s_k%d", text(cm.Lhs[0]), text(cm.Lhs[1]), cm.Tok.String(), pfx, i, pfx, i)
				}
				hdrs = append(hdrs, hdr{c, fmt.Sprintf("case %d: %s; _ = %s_k%d;", i, bind, pfx, i)})
			case *ast.SendStmt:
				fmt.Fprintf(&pro, "%s_c%d := %s; %s_x%d := %s; ", pfx, i, text(cm.Chan), pfx, i, text(cm.Value))
				fmt.Fprintf(&probe, "case %d: if simrt.TrySend(%s_c%d, %s_x%d) { %s = %d }; ", i, pfx, i, pfx, i, pfx, i)
				fmt.Fprintf(&blk, "case %s_c%d <- %s_x%d: %s = %d; ", pfx, i, pfx, i, pfx, i)
				hdrs = append(hdrs, hdr{c, fmt.Sprintf("case %d:", i)})
			default:
				okAll = false
			}
		}
		if !okAll {
			return true
		}
		count++
		site := fmt.Sprintf("%s:%d", rel, line)
		head := fmt.Sprintf("{ %s%s := -1; for _, _i := range simrt.SelOrder(%q, %d) { switch _i { %s}; if %s >= 0 { break } }; if %s < 0 { select { %s} }; switch %s {",
			pro.String(), pfx, site, ncomm, probe.String(), pfx, pfx, blk.String(), pfx)
		// replace "select {" .. up to and including Lbrace
		edits = append(edits, edit{off: off(sel.Pos()), del: off(sel.Body.Lbrace) + 1 - off(sel.Pos()), text: head})
		for _, h := range hdrs {
			edits = append(edits, edit{off: off(h.c.Pos()), del: off(h.c.Colon) + 1 - off(h.c.Pos()), text: h.text})
		}
		edits = append(edits, edit{off: off(sel.Body.Rbrace), text: "default: panic(\"simrt: select index\"); "})
		edits = append(edits, edit{off: off(sel.End()), text: " }"})
		return true
	})
	b := applyEdits(src, edits)
	return b, count
}
