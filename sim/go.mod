module verifsim

go 1.26

require (
	github.com/anishathalye/porcupine v1.3.0
	github.com/eclipse/paho.mqtt.golang v1.3.5
	github.com/energomonitor/bisquitt v0.0.0
	github.com/pion/udp v0.1.1
)

require (
	github.com/pion/dtls/v2 v2.1.3 // indirect
	github.com/pion/logging v0.2.2 // indirect
	github.com/pion/transport v0.13.0 // indirect
	golang.org/x/crypto v0.0.0-20220314234724-5d542ad81a58 // indirect
	golang.org/x/sync v0.0.0-20210220032951-036812b2e83c // indirect
	golang.org/x/xerrors v0.0.0-20200804184101-5ec99f83aff1 // indirect
	gopkg.in/yaml.v3 v3.0.0-20210107192922-496545a6307b // indirect
)

replace github.com/energomonitor/bisquitt => /repo

replace golang.org/x/sync => ./third_party/xsync
