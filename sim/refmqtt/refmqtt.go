// Package refmqtt is an independent MQTT 3.1.1 codec and validator written from the OASIS
// standard. It does not use paho. The validator's rule ids become part of C24 signatures.
package refmqtt

import (
	"encoding/binary"
	"fmt"
	"strings"
	"unicode/utf8"
)

const (
	CONNECT     = 1
	CONNACK     = 2
	PUBLISH     = 3
	PUBACK      = 4
	PUBREC      = 5
	PUBREL      = 6
	PUBCOMP     = 7
	SUBSCRIBE   = 8
	SUBACK      = 9
	UNSUBSCRIBE = 10
	UNSUBACK    = 11
	PINGREQ     = 12
	PINGRESP    = 13
	DISCONNECT  = 14
)

var names = []string{"RESERVED0", "CONNECT", "CONNACK", "PUBLISH", "PUBACK", "PUBREC", "PUBREL", "PUBCOMP", "SUBSCRIBE", "SUBACK",
	"UNSUBSCRIBE", "UNSUBACK", "PINGREQ", "PINGRESP", "DISCONNECT", "RESERVED15"}

func TypeName(t byte) string { return names[t&15] }

// Pkt is a generic MQTT 3.1.1 control packet.
type Pkt struct {
	Type   byte  `json:"type"`
	Flags  byte  `json:"flags"` // raw fixed-header flags
	Dup    bool  `json:"dup,omitempty"`
	QoS    uint8 `json:"qos,omitempty"`
	Retain bool  `json:"retain,omitempty"`
	ID     uint16 `json:"id,omitempty"`
	Topic  string `json:"topic,omitempty"`
	Payload []byte `json:"payload,omitempty"`
	// SUBSCRIBE / UNSUBSCRIBE / SUBACK
	Filters []string `json:"filters,omitempty"`
	QoSs    []byte   `json:"qoss,omitempty"`
	Codes   []byte   `json:"codes,omitempty"`
	// CONNECT
	ProtoName    string `json:"proto,omitempty"`
	ProtoLevel   byte   `json:"level,omitempty"`
	ConnFlags    byte   `json:"cflags,omitempty"`
	KeepAlive    uint16 `json:"keepalive,omitempty"`
	ClientID     string `json:"cid,omitempty"`
	WillTopic    string `json:"willtopic,omitempty"`
	WillMsg      []byte `json:"willmsg,omitempty"`
	HasWill      bool   `json:"haswill,omitempty"`
	WillQoS      uint8  `json:"willqos,omitempty"`
	WillRetain   bool   `json:"willretain,omitempty"`
	HasUser      bool   `json:"hasuser,omitempty"`
	User         string `json:"user,omitempty"`
	HasPass      bool   `json:"haspass,omitempty"`
	Pass         []byte `json:"pass,omitempty"`
	Clean        bool   `json:"clean,omitempty"`
	// CONNACK
	SessionPresent bool `json:"sp,omitempty"`
	RC             byte `json:"rc,omitempty"`

	Violations []string `json:"violations,omitempty"` // rule ids broken (filled by Decode)
}

func (p Pkt) Name() string { return TypeName(p.Type) }
func (p Pkt) String() string {
	s := p.Name()
	switch p.Type {
	case CONNECT:
		s += fmt.Sprintf("(cid=%q ka=%d clean=%v will=%v user=%v pass=%v)", p.ClientID, p.KeepAlive, p.Clean, p.HasWill, p.HasUser, p.HasPass)
	case CONNACK:
		s += fmt.Sprintf("(rc=%d)", p.RC)
	case PUBLISH:
		s += fmt.Sprintf("(topic=%q id=%d qos=%d dup=%v ret=%v len=%d)", p.Topic, p.ID, p.QoS, p.Dup, p.Retain, len(p.Payload))
	case PUBACK, PUBREC, PUBREL, PUBCOMP, UNSUBACK:
		s += fmt.Sprintf("(id=%d)", p.ID)
	case SUBSCRIBE:
		s += fmt.Sprintf("(id=%d %q qos=%v)", p.ID, p.Filters, p.QoSs)
	case UNSUBSCRIBE:
		s += fmt.Sprintf("(id=%d %q)", p.ID, p.Filters)
	case SUBACK:
		s += fmt.Sprintf("(id=%d codes=%v)", p.ID, p.Codes)
	}
	return s
}

func encLen(n int) []byte {
	var b []byte
	for {
		d := byte(n % 128)
		n /= 128
		if n > 0 {
			d |= 0x80
		}
		b = append(b, d)
		if n == 0 {
			return b
		}
	}
}
func str(s string) []byte { return append([]byte{byte(len(s) >> 8), byte(len(s))}, s...) }
func u16(v uint16) []byte { return []byte{byte(v >> 8), byte(v)} }

// Encode serialises p (used by the broker model; produces valid packets only if p is valid).
func (p Pkt) Encode() []byte {
	var body []byte
	flags := p.Flags
	switch p.Type {
	case CONNACK:
		sp := byte(0)
		if p.SessionPresent {
			sp = 1
		}
		body = []byte{sp, p.RC}
	case PUBLISH:
		flags = p.QoS << 1
		if p.Dup {
			flags |= 8
		}
		if p.Retain {
			flags |= 1
		}
		body = str(p.Topic)
		if p.QoS > 0 {
			body = append(body, u16(p.ID)...)
		}
		body = append(body, p.Payload...)
	case PUBACK, PUBREC, PUBCOMP, UNSUBACK:
		body = u16(p.ID)
	case PUBREL:
		flags = 2
		body = u16(p.ID)
	case SUBACK:
		body = append(u16(p.ID), p.Codes...)
	case PINGRESP, PINGREQ, DISCONNECT:
	}
	out := []byte{p.Type<<4 | flags&15}
	out = append(out, encLen(len(body))...)
	return append(out, body...)
}

// Parser reassembles a byte stream into packets.
type Parser struct {
	server bool
	buf []byte
	Err error // framing error (malformed remaining length); parsing stops
}

func (ps *Parser) Feed(b []byte) []Pkt {
	if ps.Err != nil {
		return nil
	}
	ps.buf = append(ps.buf, b...)
	var out []Pkt
	for {
		if len(ps.buf) < 2 {
			return out
		}
		n, mult, i := 0, 1, 1
		for {
			if i >= len(ps.buf) {
				return out
			}
			d := ps.buf[i]
			n += int(d&127) * mult
			mult *= 128
			i++
			if d&128 == 0 {
				break
			}
			if i > 4 {
				ps.Err = fmt.Errorf("malformed remaining length")
				return out
			}
		}
		if len(ps.buf) < i+n {
			return out
		}
		pk := decode(ps.buf[0], ps.buf[i:i+n], ps.server)
		ps.buf = ps.buf[i+n:]
		out = append(out, pk)
	}
}

// Pending reports buffered bytes of an incomplete packet.
func (ps *Parser) Pending() int { return len(ps.buf) }

func validUTF8(s string) bool {
	if !utf8.ValidString(s) {
		return false
	}
	return !strings.ContainsRune(s, 0)
}

// ValidTopicName: MQTT-4.7.3-1 (non-empty), 4.7.1 (no wildcards), 1.5.3 (UTF-8, no NUL).
func TopicNameRule(t string) string {
	switch {
	case len(t) == 0:
		return "MQTT-4.7.3-1(empty-topic-name)"
	case strings.ContainsAny(t, "+#"):
		return "MQTT-3.3.2-2(wildcard-in-topic-name)"
	case !validUTF8(t):
		return "MQTT-1.5.3(bad-utf8-or-nul)"
	}
	return ""
}

// FilterRule: MQTT-4.7.3-1, 4.7.1-2, 4.7.1-3.
func FilterRule(f string) string {
	if len(f) == 0 {
		return "MQTT-4.7.3-1(empty-filter)"
	}
	if !validUTF8(f) {
		return "MQTT-1.5.3(bad-utf8-or-nul)"
	}
	lv := strings.Split(f, "/")
	for i, l := range lv {
		if strings.Contains(l, "#") && (l != "#" || i != len(lv)-1) {
			return "MQTT-4.7.1-2(misplaced-#)"
		}
		if strings.Contains(l, "+") && l != "+" {
			return "MQTT-4.7.1-3(misplaced-+)"
		}
	}
	return ""
}

// Decode parses and validates one client->server packet; broken rules are listed in Violations.
func Decode(h byte, body []byte) Pkt { return decode(h, body, false) }

// DecodeServer parses a server->client packet (what the broker model sent).
func DecodeServer(b []byte) (Pkt, bool) {
	var ps Parser
	ps.server = true
	l := ps.Feed(b)
	if len(l) != 1 {
		return Pkt{}, false
	}
	return l[0], true
}

func decode(h byte, body []byte, server bool) Pkt {
	p := Pkt{Type: h >> 4, Flags: h & 15}
	bad := func(r string) { p.Violations = append(p.Violations, r) }
	rd16 := func() (uint16, bool) {
		if len(body) < 2 {
			return 0, false
		}
		v := binary.BigEndian.Uint16(body)
		body = body[2:]
		return v, true
	}
	rdStr := func() (string, bool) {
		n, ok := rd16()
		if !ok || len(body) < int(n) {
			return "", false
		}
		s := string(body[:n])
		body = body[n:]
		return s, true
	}
	reqFlags := func(f byte) {
		if p.Flags != f {
			bad(fmt.Sprintf("MQTT-2.2.2-1(fixed-header-flags=%d)", p.Flags))
		}
	}
	switch p.Type {
	case CONNECT:
		reqFlags(0)
		var ok bool
		if p.ProtoName, ok = rdStr(); !ok {
			bad("malformed(connect)")
			return p
		}
		if len(body) < 4 {
			bad("malformed(connect)")
			return p
		}
		p.ProtoLevel = body[0]
		p.ConnFlags = body[1]
		p.KeepAlive = binary.BigEndian.Uint16(body[2:4])
		body = body[4:]
		if p.ProtoName != "MQTT" {
			bad("MQTT-3.1.2-1(protocol-name)")
		}
		if p.ProtoLevel != 4 {
			bad("MQTT-3.1.2-2(protocol-level)")
		}
		f := p.ConnFlags
		if f&1 != 0 {
			bad("MQTT-3.1.2-3(reserved-connect-flag)")
		}
		p.Clean = f&2 != 0
		p.HasWill = f&4 != 0
		p.WillQoS = (f >> 3) & 3
		p.WillRetain = f&32 != 0
		p.HasPass = f&64 != 0
		p.HasUser = f&128 != 0
		if p.ClientID, ok = rdStr(); !ok {
			bad("malformed(connect-clientid)")
			return p
		}
		if !validUTF8(p.ClientID) {
			bad("MQTT-3.1.3-4(clientid-utf8)")
		}
		if p.ClientID == "" && !p.Clean {
			bad("MQTT-3.1.3-7(empty-clientid-needs-clean)")
		}
		if p.HasWill {
			if p.WillTopic, ok = rdStr(); !ok {
				bad("malformed(connect-will)")
				return p
			}
			n, ok2 := rd16()
			if !ok2 || len(body) < int(n) {
				bad("malformed(connect-will)")
				return p
			}
			p.WillMsg = append([]byte(nil), body[:n]...)
			body = body[n:]
			if p.WillQoS > 2 {
				bad("MQTT-3.1.2-14(will-qos-3)")
			}
			if r := TopicNameRule(p.WillTopic); r != "" {
				bad("will-topic:" + r)
			}
		} else {
			if p.WillQoS != 0 {
				bad("MQTT-3.1.2-13(will-qos-without-will)")
			}
			if p.WillRetain {
				bad("MQTT-3.1.2-15(will-retain-without-will)")
			}
		}
		if p.HasUser {
			if p.User, ok = rdStr(); !ok {
				bad("malformed(connect-user)")
				return p
			}
		}
		if p.HasPass {
			if !p.HasUser {
				bad("MQTT-3.1.2-22(password-without-username)")
			}
			n, ok2 := rd16()
			if !ok2 || len(body) < int(n) {
				bad("malformed(connect-pass)")
				return p
			}
			p.Pass = append([]byte(nil), body[:n]...)
			body = body[n:]
		}
		if len(body) != 0 {
			bad("malformed(connect-trailing)")
		}
	case PUBLISH:
		p.Dup = p.Flags&8 != 0
		p.QoS = (p.Flags >> 1) & 3
		p.Retain = p.Flags&1 != 0
		if p.QoS == 3 {
			bad("MQTT-3.3.1-4(qos-3)")
		}
		if p.QoS == 0 && p.Dup {
			bad("MQTT-3.3.1-2(dup-with-qos0)")
		}
		var ok bool
		if p.Topic, ok = rdStr(); !ok {
			bad("malformed(publish)")
			return p
		}
		if r := TopicNameRule(p.Topic); r != "" {
			bad(r)
		}
		if p.QoS == 1 || p.QoS == 2 {
			if p.ID, ok = rd16(); !ok {
				bad("malformed(publish-id)")
				return p
			}
			if p.ID == 0 {
				bad("MQTT-2.3.1-1(packet-id-0)")
			}
		}
		p.Payload = append([]byte(nil), body...)
	case PUBACK, PUBREC, PUBCOMP, UNSUBACK, PUBREL:
		if p.Type == PUBREL {
			reqFlags(2)
		} else {
			reqFlags(0)
		}
		var ok bool
		if p.ID, ok = rd16(); !ok || len(body) != 0 {
			bad("malformed(" + strings.ToLower(p.Name()) + ")")
			return p
		}
		if p.ID == 0 {
			bad("MQTT-2.3.1-1(packet-id-0)")
		}
	case SUBSCRIBE:
		reqFlags(2)
		var ok bool
		if p.ID, ok = rd16(); !ok {
			bad("malformed(subscribe)")
			return p
		}
		if p.ID == 0 {
			bad("MQTT-2.3.1-1(packet-id-0)")
		}
		for len(body) > 0 {
			f, ok := rdStr()
			if !ok || len(body) < 1 {
				bad("malformed(subscribe-filter)")
				return p
			}
			q := body[0]
			body = body[1:]
			p.Filters = append(p.Filters, f)
			p.QoSs = append(p.QoSs, q)
			if q > 2 {
				bad("MQTT-3.8.3-4(requested-qos>2)")
			}
			if r := FilterRule(f); r != "" {
				bad(r)
			}
		}
		if len(p.Filters) == 0 {
			bad("MQTT-3.8.3-3(no-filter)")
		}
	case UNSUBSCRIBE:
		reqFlags(2)
		var ok bool
		if p.ID, ok = rd16(); !ok {
			bad("malformed(unsubscribe)")
			return p
		}
		if p.ID == 0 {
			bad("MQTT-2.3.1-1(packet-id-0)")
		}
		for len(body) > 0 {
			f, ok := rdStr()
			if !ok {
				bad("malformed(unsubscribe-filter)")
				return p
			}
			p.Filters = append(p.Filters, f)
			if r := FilterRule(f); r != "" {
				bad(r)
			}
		}
		if len(p.Filters) == 0 {
			bad("MQTT-3.10.3-2(no-filter)")
		}
	case PINGREQ, DISCONNECT:
		reqFlags(0)
		if len(body) != 0 {
			bad("malformed(" + strings.ToLower(p.Name()) + "-body)")
		}
	case CONNACK, SUBACK, PINGRESP:
		if !server {
			bad("server-to-client-type-from-client(" + p.Name() + ")")
		}
		switch p.Type {
		case CONNACK:
			if len(body) == 2 {
				p.SessionPresent = body[0]&1 != 0
				p.RC = body[1]
			}
		case SUBACK:
			if len(body) >= 2 {
				p.ID = binary.BigEndian.Uint16(body)
				p.Codes = append([]byte(nil), body[2:]...)
			}
		}
	default:
		bad("reserved-type")
	}
	return p
}

// Match implements MQTT 4.7 topic-filter matching (incl. the `$` rule 4.7.2-1).
func Match(filter, topic string) bool {
	if len(filter) == 0 || len(topic) == 0 {
		return false
	}
	if topic[0] == '$' && (filter[0] == '+' || filter[0] == '#') {
		return false
	}
	f := strings.Split(filter, "/")
	t := strings.Split(topic, "/")
	for i, fl := range f {
		if fl == "#" {
			return true // matches parent level too
		}
		if i >= len(t) {
			return false
		}
		if fl != "+" && fl != t[i] {
			return false
		}
	}
	return len(f) == len(t)
}
