// Package refsn is an independent MQTT-SN 1.2 (+ bisquitt AUTH extension) codec written from
// the specification text and doc/auth.md. It does not import /repo/packets*. It builds what raw
// peers send, parses every datagram seen on a link and judges well-formedness (C23).
package refsn

import (
	"encoding/binary"
	"encoding/hex"
	"encoding/json"
	"errors"
	"fmt"
	"unicode/utf8"
)

const (
	ADVERTISE     = 0x00
	SEARCHGW      = 0x01
	GWINFO        = 0x02
	AUTH          = 0x03
	CONNECT       = 0x04
	CONNACK       = 0x05
	WILLTOPICREQ  = 0x06
	WILLTOPIC     = 0x07
	WILLMSGREQ    = 0x08
	WILLMSG       = 0x09
	REGISTER      = 0x0A
	REGACK        = 0x0B
	PUBLISH       = 0x0C
	PUBACK        = 0x0D
	PUBCOMP       = 0x0E
	PUBREC        = 0x0F
	PUBREL        = 0x10
	SUBSCRIBE     = 0x12
	SUBACK        = 0x13
	UNSUBSCRIBE   = 0x14
	UNSUBACK      = 0x15
	PINGREQ       = 0x16
	PINGRESP      = 0x17
	DISCONNECT    = 0x18
	WILLTOPICUPD  = 0x1A
	WILLTOPICRESP = 0x1B
	WILLMSGUPD    = 0x1C
	WILLMSGRESP   = 0x1D
)

const (
	TITNormal     = 0 // registered id, or topic name in SUBSCRIBE/UNSUBSCRIBE
	TITPredefined = 1
	TITShort      = 2
)

const (
	RCAccepted     = 0
	RCCongestion   = 1
	RCInvalidTopic = 2
	RCNotSupported = 3
)

// MaxDatagram is the transport maximum of pion/udp and pion/dtls.
const MaxDatagram = 8192

var names = map[byte]string{
	ADVERTISE: "ADVERTISE", SEARCHGW: "SEARCHGW", GWINFO: "GWINFO", AUTH: "AUTH", CONNECT: "CONNECT", CONNACK: "CONNACK",
	WILLTOPICREQ: "WILLTOPICREQ", WILLTOPIC: "WILLTOPIC", WILLMSGREQ: "WILLMSGREQ", WILLMSG: "WILLMSG", REGISTER: "REGISTER",
	REGACK: "REGACK", PUBLISH: "PUBLISH", PUBACK: "PUBACK", PUBCOMP: "PUBCOMP", PUBREC: "PUBREC", PUBREL: "PUBREL",
	SUBSCRIBE: "SUBSCRIBE", SUBACK: "SUBACK", UNSUBSCRIBE: "UNSUBSCRIBE", UNSUBACK: "UNSUBACK", PINGREQ: "PINGREQ",
	PINGRESP: "PINGRESP", DISCONNECT: "DISCONNECT", WILLTOPICUPD: "WILLTOPICUPD", WILLTOPICRESP: "WILLTOPICRESP",
	WILLMSGUPD: "WILLMSGUPD", WILLMSGRESP: "WILLMSGRESP",
}

// AllTypes lists every defined message type (incl. AUTH).
var AllTypes = []byte{ADVERTISE, SEARCHGW, GWINFO, AUTH, CONNECT, CONNACK, WILLTOPICREQ, WILLTOPIC, WILLMSGREQ, WILLMSG,
	REGISTER, REGACK, PUBLISH, PUBACK, PUBCOMP, PUBREC, PUBREL, SUBSCRIBE, SUBACK, UNSUBSCRIBE, UNSUBACK, PINGREQ, PINGRESP,
	DISCONNECT, WILLTOPICUPD, WILLTOPICRESP, WILLMSGUPD, WILLMSGRESP}

func TypeName(t byte) string {
	if n, ok := names[t]; ok {
		return n
	}
	return fmt.Sprintf("TYPE%#02x", t)
}

// Pkt is a generic MQTT-SN message. Only the fields of its type are meaningful.
type Pkt struct {
	Type byte `json:"type"`
	// flags
	Dup    bool  `json:"dup,omitempty"`
	QoS    uint8 `json:"qos,omitempty"` // 0..3 (3 = -1)
	Retain bool  `json:"retain,omitempty"`
	Will   bool  `json:"will,omitempty"`
	Clean  bool  `json:"clean,omitempty"`
	TIT    uint8 `json:"tit,omitempty"`

	ProtocolID byte   `json:"proto,omitempty"`
	Duration   uint16 `json:"dur,omitempty"`
	HasDur     bool   `json:"hasdur,omitempty"` // DISCONNECT with duration field present
	ClientID   string `json:"cid,omitempty"`
	TopicID    uint16 `json:"tid,omitempty"`
	MsgID      uint16 `json:"mid,omitempty"`
	RC         byte   `json:"rc,omitempty"`
	TopicName  string `json:"topic,omitempty"`
	Data       []byte `json:"data,omitempty"`
	GwID       byte   `json:"gwid,omitempty"`
	Radius     byte   `json:"radius,omitempty"`
	AuthReason byte   `json:"areason,omitempty"`
	AuthMethod string `json:"amethod,omitempty"`

	Long bool   `json:"long,omitempty"` // encode with the 3-byte length form even if short
	Raw  []byte `json:"raw,omitempty"`  // if set, Encode returns these bytes verbatim
}

func (p Pkt) Name() string { return TypeName(p.Type) }

func (p Pkt) String() string {
	s := p.Name()
	switch p.Type {
	case CONNECT:
		s += fmt.Sprintf("(cid=%q dur=%d will=%v clean=%v proto=%d)", p.ClientID, p.Duration, p.Will, p.Clean, p.ProtocolID)
	case CONNACK, WILLTOPICRESP, WILLMSGRESP:
		s += fmt.Sprintf("(rc=%d)", p.RC)
	case REGISTER:
		s += fmt.Sprintf("(tid=%d mid=%d name=%q)", p.TopicID, p.MsgID, p.TopicName)
	case REGACK, PUBACK:
		s += fmt.Sprintf("(tid=%d mid=%d rc=%d)", p.TopicID, p.MsgID, p.RC)
	case PUBLISH:
		s += fmt.Sprintf("(tit=%d tid=%d mid=%d qos=%d dup=%v ret=%v len=%d)", p.TIT, p.TopicID, p.MsgID, p.QoS, p.Dup, p.Retain, len(p.Data))
	case PUBREC, PUBREL, PUBCOMP, UNSUBACK:
		s += fmt.Sprintf("(mid=%d)", p.MsgID)
	case SUBSCRIBE, UNSUBSCRIBE:
		s += fmt.Sprintf("(tit=%d mid=%d qos=%d dup=%v tid=%d name=%q)", p.TIT, p.MsgID, p.QoS, p.Dup, p.TopicID, p.TopicName)
	case SUBACK:
		s += fmt.Sprintf("(tid=%d mid=%d qos=%d rc=%d)", p.TopicID, p.MsgID, p.QoS, p.RC)
	case DISCONNECT:
		if p.HasDur {
			s += fmt.Sprintf("(dur=%d)", p.Duration)
		}
	case WILLTOPIC, WILLTOPICUPD:
		s += fmt.Sprintf("(qos=%d ret=%v topic=%q)", p.QoS, p.Retain, p.TopicName)
	case WILLMSG, WILLMSGUPD:
		s += fmt.Sprintf("(len=%d)", len(p.Data))
	case AUTH:
		s += fmt.Sprintf("(reason=%d method=%q len=%d)", p.AuthReason, p.AuthMethod, len(p.Data))
	case PINGREQ:
		if len(p.Data) > 0 {
			s += fmt.Sprintf("(cid=%q)", string(p.Data))
		}
	}
	return s
}

func (p Pkt) flags() byte {
	var b byte
	if p.Dup {
		b |= 0x80
	}
	b |= (p.QoS & 3) << 5
	if p.Retain {
		b |= 0x10
	}
	if p.Will {
		b |= 0x08
	}
	if p.Clean {
		b |= 0x04
	}
	b |= p.TIT & 3
	return b
}

func u16(v uint16) []byte { return []byte{byte(v >> 8), byte(v)} }

// Body returns the variable part of the message.
func (p Pkt) Body() []byte {
	var b []byte
	switch p.Type {
	case ADVERTISE:
		b = append([]byte{p.GwID}, u16(p.Duration)...)
	case SEARCHGW:
		b = []byte{p.Radius}
	case GWINFO:
		b = append([]byte{p.GwID}, p.Data...)
	case AUTH:
		b = append([]byte{p.AuthReason, byte(len(p.AuthMethod))}, p.AuthMethod...)
		b = append(b, p.Data...)
	case CONNECT:
		b = append([]byte{p.flags(), p.ProtocolID}, u16(p.Duration)...)
		b = append(b, p.ClientID...)
	case CONNACK, WILLTOPICRESP, WILLMSGRESP:
		b = []byte{p.RC}
	case WILLTOPICREQ, WILLMSGREQ, PINGRESP:
	case WILLTOPIC, WILLTOPICUPD:
		if p.TopicName == "" && !p.Will { // empty WILLTOPIC (2 bytes) deletes the will
			b = nil
		} else {
			b = append([]byte{p.flags() & 0x70}, p.TopicName...)
		}
	case WILLMSG, WILLMSGUPD:
		b = p.Data
	case REGISTER:
		b = append(u16(p.TopicID), u16(p.MsgID)...)
		b = append(b, p.TopicName...)
	case REGACK, PUBACK:
		b = append(u16(p.TopicID), u16(p.MsgID)...)
		b = append(b, p.RC)
	case PUBLISH:
		b = append([]byte{p.flags() & 0xF3}, u16(p.TopicID)...)
		b = append(b, u16(p.MsgID)...)
		b = append(b, p.Data...)
	case PUBCOMP, PUBREC, PUBREL, UNSUBACK:
		b = u16(p.MsgID)
	case SUBSCRIBE, UNSUBSCRIBE:
		b = append([]byte{p.flags() & 0xE3}, u16(p.MsgID)...)
		if p.TIT == TITNormal || p.TIT == 3 {
			b = append(b, p.TopicName...)
		} else {
			b = append(b, u16(p.TopicID)...)
		}
	case SUBACK:
		b = append([]byte{p.flags() & 0x60}, u16(p.TopicID)...)
		b = append(b, u16(p.MsgID)...)
		b = append(b, p.RC)
	case PINGREQ:
		b = p.Data
	case DISCONNECT:
		if p.HasDur {
			b = u16(p.Duration)
		}
	default:
		b = p.Data
	}
	return b
}

// Encode returns the datagram.
func (p Pkt) Encode() []byte {
	if p.Raw != nil {
		return append([]byte(nil), p.Raw...)
	}
	body := p.Body()
	n := len(body) + 2
	if n > 255 || p.Long {
		n = len(body) + 4
		out := append([]byte{1, byte(n >> 8), byte(n)}, p.Type)
		return append(out, body...)
	}
	out := []byte{byte(n), p.Type}
	return append(out, body...)
}

// Decode parses one datagram strictly: the length field must equal the datagram size, the type
// must be defined, and the body must have the shape the specification gives for that type.
func Decode(b []byte) (Pkt, error) {
	var p Pkt
	if len(b) < 2 {
		return p, fmt.Errorf("datagram of %d bytes", len(b))
	}
	var body []byte
	if b[0] == 1 {
		if len(b) < 4 {
			return p, errors.New("3-byte length form but datagram shorter than 4")
		}
		n := int(binary.BigEndian.Uint16(b[1:3]))
		if n != len(b) {
			return p, fmt.Errorf("length field %d != datagram size %d", n, len(b))
		}
		p.Long = true
		p.Type = b[3]
		body = b[4:]
	} else {
		if int(b[0]) != len(b) {
			return p, fmt.Errorf("length field %d != datagram size %d", b[0], len(b))
		}
		p.Type = b[1]
		body = b[2:]
	}
	if _, ok := names[p.Type]; !ok {
		return p, fmt.Errorf("undefined message type %#02x", p.Type)
	}
	need := func(n int) error {
		if len(body) < n {
			return fmt.Errorf("%s body of %d bytes, need >= %d", p.Name(), len(body), n)
		}
		return nil
	}
	exact := func(n int) error {
		if len(body) != n {
			return fmt.Errorf("%s body of %d bytes, need %d", p.Name(), len(body), n)
		}
		return nil
	}
	setFlags := func(f byte) {
		p.Dup = f&0x80 != 0
		p.QoS = (f >> 5) & 3
		p.Retain = f&0x10 != 0
		p.Will = f&0x08 != 0
		p.Clean = f&0x04 != 0
		p.TIT = f & 3
	}
	switch p.Type {
	case ADVERTISE:
		if err := exact(3); err != nil {
			return p, err
		}
		p.GwID = body[0]
		p.Duration = binary.BigEndian.Uint16(body[1:])
	case SEARCHGW:
		if err := exact(1); err != nil {
			return p, err
		}
		p.Radius = body[0]
	case GWINFO:
		if err := need(1); err != nil {
			return p, err
		}
		p.GwID = body[0]
		p.Data = body[1:]
	case AUTH:
		if err := need(2); err != nil {
			return p, err
		}
		p.AuthReason = body[0]
		ml := int(body[1])
		if len(body) < 2+ml {
			return p, fmt.Errorf("AUTH method length %d exceeds body", ml)
		}
		p.AuthMethod = string(body[2 : 2+ml])
		p.Data = body[2+ml:]
	case CONNECT:
		if err := need(4); err != nil {
			return p, err
		}
		setFlags(body[0])
		p.ProtocolID = body[1]
		p.Duration = binary.BigEndian.Uint16(body[2:4])
		p.ClientID = string(body[4:])
	case CONNACK, WILLTOPICRESP, WILLMSGRESP:
		if err := exact(1); err != nil {
			return p, err
		}
		p.RC = body[0]
	case WILLTOPICREQ, WILLMSGREQ, PINGRESP:
		if err := exact(0); err != nil {
			return p, err
		}
	case WILLTOPIC, WILLTOPICUPD:
		if len(body) > 0 {
			setFlags(body[0])
			p.TopicName = string(body[1:])
		}
	case WILLMSG, WILLMSGUPD:
		p.Data = body
	case REGISTER:
		if err := need(4); err != nil {
			return p, err
		}
		p.TopicID = binary.BigEndian.Uint16(body[0:2])
		p.MsgID = binary.BigEndian.Uint16(body[2:4])
		p.TopicName = string(body[4:])
	case REGACK, PUBACK:
		if err := exact(5); err != nil {
			return p, err
		}
		p.TopicID = binary.BigEndian.Uint16(body[0:2])
		p.MsgID = binary.BigEndian.Uint16(body[2:4])
		p.RC = body[4]
	case PUBLISH:
		if err := need(5); err != nil {
			return p, err
		}
		setFlags(body[0])
		p.TopicID = binary.BigEndian.Uint16(body[1:3])
		p.MsgID = binary.BigEndian.Uint16(body[3:5])
		p.Data = body[5:]
	case PUBCOMP, PUBREC, PUBREL, UNSUBACK:
		if err := exact(2); err != nil {
			return p, err
		}
		p.MsgID = binary.BigEndian.Uint16(body)
	case SUBSCRIBE, UNSUBSCRIBE:
		if err := need(3); err != nil {
			return p, err
		}
		setFlags(body[0])
		p.MsgID = binary.BigEndian.Uint16(body[1:3])
		if p.TIT == TITPredefined || p.TIT == TITShort {
			if len(body) != 5 {
				return p, fmt.Errorf("%s with topic id: body of %d bytes, need 5", p.Name(), len(body))
			}
			p.TopicID = binary.BigEndian.Uint16(body[3:5])
		} else {
			p.TopicName = string(body[3:])
		}
	case SUBACK:
		if err := exact(6); err != nil {
			return p, err
		}
		setFlags(body[0])
		p.TopicID = binary.BigEndian.Uint16(body[1:3])
		p.MsgID = binary.BigEndian.Uint16(body[3:5])
		p.RC = body[5]
	case PINGREQ:
		p.Data = body
	case DISCONNECT:
		if len(body) != 0 && len(body) != 2 {
			return p, fmt.Errorf("DISCONNECT body of %d bytes", len(body))
		}
		if len(body) == 2 {
			p.HasDur = true
			p.Duration = binary.BigEndian.Uint16(body)
		}
	}
	return p, nil
}

// Directions.
const (
	ToClient  = 0 // gateway -> client
	ToGateway = 1 // client -> gateway
)

// LegalDirection says whether a message of type t may travel in direction dir on a unicast
// client<->gateway association (ADVERTISE/SEARCHGW/GWINFO are broadcast-only and never legal here).
func LegalDirection(t byte, dir int) bool {
	switch t {
	case CONNACK, WILLTOPICREQ, WILLMSGREQ, SUBACK, UNSUBACK, PINGRESP, WILLTOPICRESP, WILLMSGRESP:
		return dir == ToClient
	case CONNECT, WILLTOPIC, WILLMSG, SUBSCRIBE, UNSUBSCRIBE, WILLTOPICUPD, WILLMSGUPD, AUTH:
		return dir == ToGateway
	case REGISTER, REGACK, PUBLISH, PUBACK, PUBCOMP, PUBREC, PUBREL, PINGREQ, DISCONNECT:
		return true
	}
	return false
}

// WellFormed is the C23 judgement for one datagram travelling in direction dir.
func WellFormed(b []byte, dir int) (Pkt, error) {
	if len(b) > MaxDatagram {
		return Pkt{}, fmt.Errorf("datagram of %d bytes exceeds transport maximum %d", len(b), MaxDatagram)
	}
	p, err := Decode(b)
	if err != nil {
		return p, err
	}
	if !LegalDirection(p.Type, dir) {
		return p, fmt.Errorf("%s is not valid in this direction", p.Name())
	}
	// note: the 3-octet length form on a message shorter than 256 octets is legal (5.2.1: such messages
	// "may" use the 1-octet form), so it is not judged here.
	return p, nil
}

// ShortName decodes a 2-byte short topic name.
func ShortName(id uint16) string { return string([]byte{byte(id >> 8), byte(id)}) }

// ShortID encodes a 2-byte name.
func ShortID(s string) uint16 { return uint16(s[0])<<8 | uint16(s[1]) }

// PlainAuth builds SASL PLAIN data (RFC 4616): authzid NUL user NUL password.
func PlainAuth(user string, password []byte) []byte {
	b := append([]byte{0}, user...)
	b = append(b, 0)
	return append(b, password...)
}

// JSON: plans and replay files must round-trip byte-exactly, but encoding/json replaces invalid
// UTF-8 in strings. String fields that are not valid UTF-8 travel as hex in *_hex companions.
type pktJSON Pkt

type pktWire struct {
	pktJSON
	TopicHex   string `json:"topic_hex,omitempty"`
	ClientHex  string `json:"cid_hex,omitempty"`
	AMethodHex string `json:"amethod_hex,omitempty"`
	RawEmpty   bool   `json:"raw_empty,omitempty"` // Raw is the empty datagram (non-nil, zero length): survives the round trip
}

func (p Pkt) MarshalJSON() ([]byte, error) {
	w := pktWire{pktJSON: pktJSON(p)}
	if !utf8.ValidString(p.TopicName) {
		w.TopicHex, w.pktJSON.TopicName = hex.EncodeToString([]byte(p.TopicName)), ""
	}
	if !utf8.ValidString(p.ClientID) {
		w.ClientHex, w.pktJSON.ClientID = hex.EncodeToString([]byte(p.ClientID)), ""
	}
	if !utf8.ValidString(p.AuthMethod) {
		w.AMethodHex, w.pktJSON.AuthMethod = hex.EncodeToString([]byte(p.AuthMethod)), ""
	}
	w.RawEmpty = p.Raw != nil && len(p.Raw) == 0
	return json.Marshal(w)
}

func (p *Pkt) UnmarshalJSON(b []byte) error {
	var w pktWire
	if err := json.Unmarshal(b, &w); err != nil {
		return err
	}
	*p = Pkt(w.pktJSON)
	if w.TopicHex != "" {
		d, _ := hex.DecodeString(w.TopicHex)
		p.TopicName = string(d)
	}
	if w.ClientHex != "" {
		d, _ := hex.DecodeString(w.ClientHex)
		p.ClientID = string(d)
	}
	if w.AMethodHex != "" {
		d, _ := hex.DecodeString(w.AMethodHex)
		p.AuthMethod = string(d)
	}
	if w.RawEmpty {
		p.Raw = []byte{}
	}
	return nil
}
