package world

import (
	"fmt"
	"strings"

	"verifsim/refmqtt"
	"verifsim/refsn"
)

// ---------------------------------------------------------------------------------------------
// C11: sleeping clients get their traffic buffered and delivered on wake

func oracleC11(v *View, vd *Verdict) {
	for _, sv := range v.Sess {
		var w stateWalk
		cycle := 0
		// broker publishes sent while the client sleeps (reference state asleep or sleep requested)
		type bmsg struct {
			payload string
			qos     uint8
			order   int
			sentT   int64
			newName bool // the topic has no id yet: REGISTER in one flush, the PUBLISH (after the REGACK) in the next
			age     int  // flushes survived
		}
		var pending []bmsg     // published during the current sleep, not yet delivered
		inFlush := false       // between the waking PINGREQ and its PINGRESP
		flushSeen := map[string]int{}
		var flushOrder []string
		ctlSeen := map[string]int{} // control packets of the gateway's own exchanges (REGISTER, PUBREL) in this flush
		type owedRel struct {
			mid   uint16
			sentT int64
		}
		var owedRels []owedRel // PUBRELs the broker sent while the client slept
		pubrecT := map[uint16]int64{} // first PUBREC the gateway wrote to the broker, per id
		afterWake := false // the wake-up PINGRESP has been sent; until the next PINGREQ/CONNECT/DISCONNECT nothing may be sent
		norder := 0
		died := false
		connecting := false // CONNECT consumed while asleep/awake, CONNACK not yet sent
		// "delivered once": a message the client has acknowledged (PUBACK, PUBREC) is never sent again,
		// in this wake-up or a later one
		sentMid := map[uint16]string{} // message id of a PUBLISH the gateway sent -> payload
		acked := map[string]bool{}
		ackedT := map[string]int64{}
		for _, e := range sv.Evs {
			if e.Kind == EvG2C && e.SNErr == nil && e.SN.Type == refsn.PUBLISH && e.SN.QoS > 0 && !died {
				k := fmt.Sprintf("%d/%s", e.SN.MsgID, e.SN.Data) // (short payloads repeat; the broker's ids do not)
				// (the retry timer may fire while the acknowledgement, already read, waits to be handled:
				// a slow gateway — only a copy sent later than that is one too many)
				if acked[k] && e.T-ackedT[k] > slack(v) {
					vd.Add("C11", fmt.Sprintf("C11/sent-again-after-acknowledgement/qos%d", e.SN.QoS), "session %s t=%d: %s sent again although the client had acknowledged it", sv.Name, e.T, e.SN.String())
					acked[k] = false // once per message
				}
				sentMid[e.SN.MsgID] = k
			}
			if e.Kind == EvC2G && e.SNErr == nil && (e.SN.Type == refsn.PUBACK || e.SN.Type == refsn.PUBREC) {
				if k, ok := sentMid[e.SN.MsgID]; ok {
					if !acked[k] {
						ackedT[k] = e.T
					}
					acked[k] = true
				}
			}
			if e.Kind == EvEnd || e.Kind == EvShutdown || e.Kind == EvBFin || e.Kind == EvBClose || e.Kind == EvMqClose {
				died = true
			}
			if died {
				w.step(e)
				continue
			}
			switch e.Kind {
			case EvB2G:
				if e.MQ.Type == refmqtt.PUBLISH && (w.st == stAsleep || w.sleepReq) && !inFlush {
					norder++
					pending = append(pending, bmsg{string(e.MQ.Payload), e.MQ.QoS, norder, e.T, strings.HasPrefix(e.MQ.Topic, "n/"), 0})
					vd.Trigger = true
				}
				if e.MQ.Type == refmqtt.PUBREL && (w.st == stAsleep || w.sleepReq) && !inFlush {
					// (a broker slower than the gateway's whole retry budget for the PUBREC has lost the exchange)
					budget := v.R.Plan.Cfg.RetryDelayMs * nsMs
					if t0, ok := pubrecT[e.MQ.ID]; ok && e.T-t0 < budget-(v.R.Plan.Cfg.MQ.MaxLatUs+1000)*1000-v.R.StalledNs {
						owedRels = append(owedRels, owedRel{e.MQ.ID, e.T})
					}
				}
			case EvG2B:
				if e.MQ.Type == refmqtt.PUBREC {
					if _, ok := pubrecT[e.MQ.ID]; !ok {
						pubrecT[e.MQ.ID] = e.T
					}
				}
			case EvG2C:
				if e.SNErr != nil {
					break
				}
				p := e.SN
				switch {
				case connecting:
					// the client asked to become active with CONNECT: the gateway may talk to it again
					if p.Type == refsn.CONNACK {
						connecting = false
						// (what the broker sent between the CONNECT and this CONNACK goes to an active client)
						pending, owedRels = nil, nil
					}
				case w.st == stAsleep && !inFlush && !w.sleepReq:
					// (a)/(c): nothing may be sent to a sleeping client
					phase := "during-first-sleep"
					if cycle > 0 {
						phase = "during-later-sleep"
					}
					if afterWake {
						phase = "after-PINGRESP"
					}
					vd.Add("C11", fmt.Sprintf("C11/sent-while-asleep/%s/%s", phase, p.Name()), "session %s cycle %d t=%d: %s sent while the client is asleep (%s)", sv.Name, cycle, e.T, p.String(), phase)
				case !inFlush && w.sleepReq && p.Type == refsn.PUBLISH:
					// sent before the gateway answered DISCONNECT(d): a normal delivery, not owed on wake
					for i := range pending {
						if pending[i].payload == string(p.Data) {
							pending = append(pending[:i], pending[i+1:]...)
							break
						}
					}
				case inFlush:
					if p.Type == refsn.PUBLISH {
						k := string(p.Data)
						flushSeen[k]++
						if flushSeen[k] == 1 {
							flushOrder = append(flushOrder, k)
						} else if flushSeen[k] == 2 {
							// the client had no chance to acknowledge the first copy yet: every message is owed once
							vd.Add("C11", fmt.Sprintf("C11/delivered-more-than-once-in-one-flush/qos%d", p.QoS), "session %s cycle %d: %s delivered again in the same flush (dup=%v)", sv.Name, cycle, p.String(), p.Dup)
						}
					}
					if p.Type == refsn.REGISTER || p.Type == refsn.PUBREL {
						// every packet is delivered once: the retry timers of the gateway's own exchanges stand
						// still while the client sleeps, so one flush never carries a packet and its retransmission
						k := fmt.Sprintf("%s/%d", p.Name(), p.MsgID)
						if ctlSeen[k]++; ctlSeen[k] == 2 {
							vd.Add("C11", "C11/delivered-more-than-once-in-one-flush/"+p.Name(), "session %s cycle %d: %s delivered again in the same flush", sv.Name, cycle, p.String())
						}
					}
					if p.Type == refsn.PINGRESP {
						for _, r := range owedRels {
							if ctlSeen[fmt.Sprintf("PUBREL/%d", r.mid)] == 0 {
								vd.Add("C11", "C11/not-delivered-on-wake/PUBREL/"+cyc(cycle), "session %s cycle %d: the broker's PUBREL(%d) sent during the sleep was not delivered before PINGRESP", sv.Name, cycle, r.mid)
							}
						}
						owedRels = nil
						ctlSeen = map[string]int{}
						// end of flush: everything published during the sleep must have appeared, first occurrences in broker order
						pos := map[string]int{}
						for i, k := range flushOrder {
							pos[k] = i
						}
						last := -1
						var carried []bmsg
						for _, m := range pending {
							i, ok := pos[m.payload]
							if !ok && m.newName && m.age == 0 {
								// this flush carried the REGISTER; the PUBLISH follows the client's REGACK
								m.age++
								carried = append(carried, m)
								continue
							}
							if !ok {
								vd.Add("C11", fmt.Sprintf("C11/not-delivered-on-wake/qos%d/%s", m.qos, cyc(cycle)), "session %s cycle %d: broker message %q published during the sleep was not delivered before PINGRESP", sv.Name, cycle, m.payload)
								continue
							}
							if m.newName {
								// (a message that waits for its topic's registration may be overtaken by
								// messages on other topics, asleep or not: order is judged among the others)
								continue
							}
							if i < last {
								vd.Add("C11", "C11/order/flush-reordered/"+cyc(cycle), "session %s cycle %d: buffered messages delivered out of broker order", sv.Name, cycle)
							}
							if i > last {
								last = i
							}
							if m.qos == 0 && flushSeen[m.payload] > 1 {
								vd.Add("C11", "C11/qos0-delivered-twice", "session %s cycle %d: QoS 0 message %q delivered %d times", sv.Name, cycle, m.payload, flushSeen[m.payload])
							}
						}
						pending = carried
						inFlush = false
						afterWake = true
						flushSeen = map[string]int{}
						flushOrder = nil
					}
				}
			case EvC2G:
				if e.SNErr != nil {
					break
				}
				switch e.SN.Type {
				case refsn.PINGREQ:
					if w.st == stAsleep {
						// messages still in flight on the broker link when the PINGREQ was consumed race with
						// the wake-up: delivering them in this flush or keeping them for the next one are both fine
						// (and a slow gateway — stalls — may still be reading them)
						guard := (v.R.Plan.Cfg.MQ.MaxLatUs+1000)*1000 + v.R.Plan.Broker.AnswerDelayMs*nsMs + v.R.StalledNs
						kept := pending[:0]
						for _, m := range pending {
							if m.sentT <= e.T-guard {
								kept = append(kept, m)
							}
						}
						pending = kept
						keptR := owedRels[:0]
						for _, r := range owedRels {
							if r.sentT <= e.T-guard {
								keptR = append(keptR, r)
							}
						}
						owedRels = keptR
						inFlush = true
						afterWake = false
						cycle++
						v.R.Probes["c11-wake"]++
					}
				case refsn.CONNECT, refsn.DISCONNECT:
					afterWake = false
					if e.SN.Type == refsn.CONNECT {
						pending = nil
						owedRels = nil
						connecting = w.st == stAsleep || w.st == stAwake
					}
				}
			}
			w.step(e)
		}
	}
}

func cyc(n int) string {
	if n <= 1 {
		return "first-cycle"
	}
	return "later-cycle"
}

// genC11: sleep/wake cycles with broker publishes around the wake-up instant. Topics need no
// registration (short, or registered before the first sleep) so that each broker PUBLISH maps to
// exactly one packet the gateway "would have sent".
func genC11(g *Gen, idx int) *Plan {
	cfg := g.BaseCfg()
	cfg.Sched = g.Sched("gateway/handler1.go:7", "gateway/handler1.go:8", "gateway/handler1.go")
	cfg.RetryDelayMs = g.Range(4000, 15000)
	if g.Bool(0.4) {
		// sleeps longer than the whole retry budget of the gateway's own exchanges
		cfg.RetryDelayMs = g.Range(200, 3000)
		if g.Bool(0.3) {
			// ... and retry timers that come round every few ms: one of them falls into the wake-up flush
			cfg.RetryDelayMs = g.Range(3, 40)
			cfg.SN.MaxLatUs = g.Range(300, 2000)
		}
	}
	p := &Plan{Family: "C11-cycles", Cfg: cfg}
	sg := &sessGen{g: g, cid: "c1"}
	ka := uint16(g.Range(10, 60))
	sg.gap(5, 200)
	sg.add(connectPkt("c1", ka, false, true))
	pingInFlight := g.Bool(0.3)
	if pingInFlight {
		p.Broker.AnswerDelayMs = g.Range(100, 600)
		sg.t += p.Broker.AnswerDelayMs // the CONNACK comes that much later
	}
	sg.gap(300, 800)
	sg.add(refsn.Pkt{Type: refsn.REGISTER, MsgID: sg.nextMid(), TopicName: "t/a"})
	sg.gap(100, 400)
	topics := []string{"ab", "cd", "t/a"}
	qmax := 1
	if g.Bool(0.35) {
		qmax = 3
	}
	fam := "qos0"
	if qmax > 1 {
		fam = "qos012"
	}
	p.Family = "C11-cycles-" + fam
	ncyc := int(g.Range(1, 4))
	n := 0
	// names without a topic id: the gateway's REGISTER is buffered like everything else (and its
	// retry timer stands still), the PUBLISH follows the client's REGACK
	newNames := g.Bool(0.3)
	nnew := 0
	if newNames {
		p.Family += "-newnames"
		ncyc = int(g.Range(2, 4))
	}
	pick := func() string {
		if newNames && g.Bool(0.5) {
			if nnew == 0 || g.Bool(0.6) {
				nnew++
			}
			return fmt.Sprintf("n/%d", g.Range(1, int64(nnew)))
		}
		return topics[g.Intn(len(topics))]
	}
	sg.active = true
	for c := 0; c < ncyc; c++ {
		d := uint16(g.Range(2, 30))
		if pingInFlight && sg.active {
			// the client's own keep-alive PINGREQ is still on its way through a slow broker when the
			// client falls asleep: the PINGRESP reaches the gateway during the sleep
			sg.add(refsn.Pkt{Type: refsn.PINGREQ})
			sg.gap(2, 40)
		}
		sg.add(refsn.Pkt{Type: refsn.DISCONNECT, HasDur: true, Duration: d})
		sg.active = false
		t0 := sg.t
		sg.gap(500, int64(d)*1000)
		wake := sg.t
		// publishes during the sleep, some exactly around the wake-up
		for k := 0; k < int(g.Range(0, 4)); k++ {
			at := g.Range(t0+100, wake)
			if g.Bool(0.4) {
				at = wake + g.Range(-15, 15)
			}
			n++
			p.Broker.Injects = append(p.Broker.Injects, BrokerInject{AtMs: at, Session: "p1", Force: true, Topic: pick(),
				Payload: serialPayload("s", n, int(g.Range(0, 8))), QoS: uint8(g.Intn(qmax)), Retain: g.Bool(0.2)})
		}
		sg.add(refsn.Pkt{Type: refsn.PINGREQ, Data: []byte("c1")})
		sg.gap(300, 2500)
		if g.Bool(0.3) {
			// publishes after the wake-up PINGRESP: the client is asleep again
			n++
			p.Broker.Injects = append(p.Broker.Injects, BrokerInject{AtMs: sg.t - g.Range(1, 200), Session: "p1", Force: true, Topic: pick(),
				Payload: serialPayload("s", n, 2), QoS: uint8(g.Intn(qmax))})
		}
		if g.Bool(0.3) {
			sg.add(connectPkt("c1", ka, false, false))
			sg.active = true
			sg.gap(300, 1500)
		}
	}
	sg.gap(200, 1000)
	p.Peers = []PeerPlan{{Name: "p1", Ops: sg.ops}}
	p.Cfg.HorizonMs = sg.t + 3000
	return p
}

// ---------------------------------------------------------------------------------------------
// C12: broker keep-alive kept for connected and sleeping clients

// complianceTol: link-latency jitter between two packets of a client that sends exactly on time.
const complianceTol = 50 * nsMs

func oracleC12(v *View, vd *Verdict) {
	for _, sv := range v.Sess {
		var w stateWalk
		lastG2B := int64(-1)
		lastState := ""
		connected := false
		relayable := false // since the last gateway->broker write the client sent something the gateway must relay
		lastC2G := int64(-1)
		for _, e := range sv.Evs {
			if e.Kind == EvEnd || e.Kind == EvShutdown || e.Kind == EvBFin || e.Kind == EvBClose || e.Kind == EvMqClose {
				break
			}
			ka := int64(w.ka) * 1000 * nsMs
			check := func(now int64) {
				if !connected || lastG2B < 0 || ka == 0 {
					return
				}
				// (the client's own deadlines are judged with complianceTol, as seen from the gateway;
				// what it may be late by, the broker-side window may be longer by)
				if now-lastG2B > ka*3/2+complianceTol+slack(v) {
					// did the client send anything the gateway has to relay (in the state it was in)?
					// If so the gap means a relay went missing; if not, the gateway simply does not
					// speak to the broker on the client's behalf.
					by := "/only-unrelayed-client-traffic"
					if relayable {
						by = "/relayable-client-traffic"
					}
					vd.Add("C12", "C12/gap/"+lastState+by, "session %s: no packet to the broker between %d and %d (%.1f s) with keep-alive %d s; state %s", sv.Name, lastG2B, now, float64(now-lastG2B)/1e9, w.ka, lastState)
					lastG2B = now // report each gap once
				}
			}
			if e.Kind == EvC2G && connected {
				// the property speaks about clients that meet their own obligations: something within
				// every keep-alive while active, a wake-up within every announced sleep duration.
				// (Generators produce such clients; shrinking may not keep them so.)
				allowed := ka
				if w.st == stAsleep || w.st == stAwake {
					allowed = int64(w.sleepDur) * 1000 * nsMs
				}
				if lastC2G >= 0 && allowed > 0 && e.T-lastC2G > allowed+complianceTol {
					break // not compliant from here on: nothing more is owed
				}
			}
			if e.Kind == EvC2G {
				lastC2G = e.T
			}
			if e.Kind == EvG2C && e.SNErr == nil && (e.SN.Type == refsn.PINGRESP || e.SN.Type == refsn.DISCONNECT) && (w.st == stAwake || w.sleepReq) {
				lastC2G = e.T // a sleep period starts when the gateway answers
			}
			switch e.Kind {
			case EvG2B:
				check(e.T)
				lastG2B = e.T
				relayable = false
				if e.MQ.Type == refmqtt.CONNECT {
					connected = true
				}
				if e.MQ.Type == refmqtt.DISCONNECT {
					connected = false
				}
			case EvC2G:
				check(e.T)
				if e.SNErr == nil && w.st == stActive && !w.sleepReq {
					switch e.SN.Type {
					case refsn.PUBLISH, refsn.SUBSCRIBE, refsn.UNSUBSCRIBE, refsn.PINGREQ, refsn.PUBREL:
						relayable = true
					}
				}
			}
			w.step(e)
			st := w.st.String()
			if w.st == stAsleep || w.sleepReq {
				if int64(w.sleepDur) <= int64(w.ka) {
					st = "asleep<=KA"
				} else {
					st = "asleep>KA"
				}
			}
			if w.st == stActive {
				st = "active"
			}
			lastState = st
		}
		if connected {
			vd.Trigger = true
		}
	}
}

// genC12: a compliant timed peer: something within every keep-alive while active, sleeps shorter
// and longer than the keep-alive, wakes in time.
func genC12(g *Gen, idx int) *Plan {
	cfg := g.BaseCfg()
	cfg.Sched = g.Sched("gateway/handler1.go")
	if g.Bool(0.7) {
		cfg.Sched.Density, cfg.Sched.FocusDensity = 0, 0 // long horizons: mostly event-level
	}
	p := &Plan{Family: "C12-timed", Cfg: cfg}
	sg := &sessGen{g: g, cid: "c1"}
	ka := g.Range(5, 40)
	sg.gap(5, 200)
	sg.add(connectPkt("c1", uint16(ka), false, true))
	sg.gap(300, 800)
	sg.add(refsn.Pkt{Type: refsn.REGISTER, MsgID: sg.nextMid(), TopicName: "t/a"})
	// what the client uses to show it is alive
	mode := g.Intn(4) // 0 PINGREQ, 1 PUBLISH, 2 REGISTER (not relayed), 3 mix
	p.Family = fmt.Sprintf("C12-timed-alive%d", mode)
	// traffic in the other direction: the broker publishes (mostly QoS 0: nothing comes back) shortly
	// before the client's next sign of life — what the broker sends does not keep the client alive
	down := g.Bool(0.4)
	if down {
		p.Family += "-down"
		sg.gap(100, 400)
		sg.add(refsn.Pkt{Type: refsn.SUBSCRIBE, MsgID: sg.nextMid(), TIT: refsn.TITNormal, TopicName: "t/a", QoS: 1})
	}
	ninj := 0
	inject := func(lo int64) {
		if !down || !g.Bool(0.8) {
			return
		}
		at := sg.t - g.Range(50, ka*1000*4/10)
		if at <= lo+20 {
			return
		}
		q := uint8(0)
		if g.Bool(0.1) {
			q = 1
		}
		ninj++
		p.Broker.Injects = append(p.Broker.Injects, BrokerInject{AtMs: at, Session: "p1", Force: true, Topic: "t/a", Payload: serialPayload("dn", ninj, 1), QoS: q})
	}
	steps := int(g.Range(4, 25))
	if g.Tier == "thorough" && g.Bool(0.2) {
		steps = int(g.Range(40, 200))
	}
	for i := 0; i < steps; i++ {
		if g.Bool(0.2) {
			d := g.Range(1, ka*3)
			sg.add(refsn.Pkt{Type: refsn.DISCONNECT, HasDur: true, Duration: uint16(d)})
			// wake within the announced duration
			lo := sg.t
			sg.gap(d*1000*6/10, d*1000-50)
			inject(lo)
			sg.add(refsn.Pkt{Type: refsn.PINGREQ, Data: []byte("c1")})
			sg.gap(200, 1500)
			if g.Bool(0.5) {
				sg.add(connectPkt("c1", uint16(ka), false, false))
				sg.gap(200, 1000)
			}
			continue
		}
		lo := sg.t
		sg.gap(ka*1000*4/10, ka*1000-100)
		inject(lo)
		m := mode
		if m == 3 {
			m = g.Intn(3)
		}
		switch m {
		case 0:
			sg.add(refsn.Pkt{Type: refsn.PINGREQ})
		case 1:
			sg.add(refsn.Pkt{Type: refsn.PUBLISH, TIT: refsn.TITNormal, TopicID: 1, QoS: uint8(g.Intn(2)), MsgID: sg.nextMid(), Data: sg.payload()})
		case 2:
			sg.add(refsn.Pkt{Type: refsn.REGISTER, MsgID: sg.nextMid(), TopicName: namePool[g.Intn(len(namePool))]})
		}
	}
	p.Peers = []PeerPlan{{Name: "p1", Ops: sg.ops}}
	p.Cfg.HorizonMs = sg.t + 2000
	return p
}

func init() {
	Register(&Check{ID: "C11", Level: "exploration",
		Rule:   "raw peer runs 1-3 sleep/wake cycles (DISCONNECT(d), PINGREQ, optional CONNECT); broker publishes (QoS 0 only in two thirds of the runs, QoS 0-2 otherwise) on topics that need no registration and, in 30 % of the runs, on names without a topic id (REGISTER in one flush, PUBLISH in the next), timed inside the sleep, within +-15 ms of the wake-up and after the wake-up PINGRESP; retry delays from a few ms (a retry timer comes round inside the wake-up procedure) to longer than the sleep; in 30 % of the runs a slow broker with the client's own PINGREQ still in flight when it falls asleep; one copy per flush (PUBLISH, REGISTER, PUBREL), the broker's PUBREL owed on wake like a PUBLISH, nothing after the PINGRESP, never again after the client acknowledged; yield focus on the PINGREQ/DISCONNECT arms and snSend; non-trivial = a broker PUBLISH while the reference state is asleep",
		Gen:    genC11, Oracle: oracleC11, Quick: 1500, Thorough: 100000})
	Register(&Check{ID: "C12", Level: "exploration",
		Rule:   "a compliant timed peer (keep-alive 5-40 s): sends PINGREQ / PUBLISH / REGISTER / a mix within every keep-alive while active, announces sleeps of 1 s..3xKA and wakes within them, in 40 % of the runs the broker publishes to it (QoS 0, sometimes 1) less than 0.4 KA before most of its signs of life, 4-25 steps (up to 200 in the thorough tier, i.e. up to ~2 h virtual); gaps between consecutive gateway->broker writes must stay <= 1.5 x KA; non-trivial = session with an MQTT CONNECT",
		Gen:    genC12, Oracle: oracleC12, Quick: 500, Thorough: 20000})
}
