package world

import (
	"bytes"
	"fmt"

	"verifsim/refmqtt"
	"verifsim/refsn"
	"verifsim/simrt"
)

// ---------------------------------------------------------------------------------------------
// C02: broker PUBLISH reaches the client under a resolvable id

func oracleC02(v *View, vd *Verdict) {
	cfg := &v.R.Plan.Cfg
	lossless := cfg.SN.Loss == 0 && cfg.SN.Corrupt == 0 && len(cfg.SN.Rules) == 0 && len(cfg.SN.Partitions) == 0
	for _, sv := range v.Sess {
		t := newTrack(v, sv)
		// what the client knows, in the order the client saw things
		know := map[uint16]string{}
		pendSub := map[uint16]refsn.Pkt{}
		pendReg := map[uint16]string{}
		type bp struct {
			p       refmqtt.Pkt
			t       int64
			seen    int
			live    bool
		}
		var sent []*bp
		byPayload := map[string]*bp{}
		refused := map[string]bool{} // names whose REGISTER the peer refused
		cut := false                 // client slept / disconnected / session ended: later deliveries are not owed
		for _, e := range sv.Evs {
			switch e.Kind {
			case EvB2G:
				if e.MQ.Type == refmqtt.PUBLISH {
					live := t.connected && !t.asleep && !t.brokerDown && !t.ended
					b := &bp{p: e.MQ, t: e.T, live: live}
					sent = append(sent, b)
					if _, dup := byPayload[string(e.MQ.Payload)]; !dup {
						byPayload[string(e.MQ.Payload)] = b
					}
				}
			case EvPeerTx:
				if e.SNErr == nil {
					switch e.SN.Type {
					case refsn.SUBSCRIBE:
						pendSub[e.SN.MsgID] = e.SN
					case refsn.REGISTER:
						pendReg[e.SN.MsgID] = e.SN.TopicName
					case refsn.REGACK:
						if e.SN.RC != refsn.RCAccepted {
							refused[fmt.Sprint(e.SN.TopicID)] = true
						}
					case refsn.DISCONNECT:
						cut = true
					}
				}
			case EvPeerRx:
				if e.SNErr != nil {
					break
				}
				p := e.SN
				switch p.Type {
				case refsn.REGISTER:
					if v.R.Plan.peerPolicy(sv.Peer).Register == "" || v.R.Plan.peerPolicy(sv.Peer).Register == "accept" {
						know[p.TopicID] = p.TopicName
					}
				case refsn.REGACK:
					if n, ok := pendReg[p.MsgID]; ok && p.RC == refsn.RCAccepted {
						know[p.TopicID] = n
					}
				case refsn.SUBACK:
					if s, ok := pendSub[p.MsgID]; ok && p.RC == refsn.RCAccepted && s.TIT == refsn.TITNormal && p.TopicID != 0 {
						know[p.TopicID] = s.TopicName
					}
				case refsn.PUBLISH:
					b := byPayload[string(p.Data)]
					if b == nil {
						break // not a broker message we can attribute (e.g. will / routed client publish)
					}
					b.seen++
					vd.Trigger = true
					var name string
					ok := true
					switch p.TIT {
					case refsn.TITNormal:
						name, ok = know[p.TopicID]
					case refsn.TITPredefined:
						name, ok = refPredefName(cfg.Predefined, t.cid, p.TopicID)
					case refsn.TITShort:
						name = refsn.ShortName(p.TopicID)
					default:
						ok = false
					}
					kind := titName(p.TIT)
					if !ok {
						vd.Add("C02", "C02/unresolvable-id/"+kind, "session %s: broker %s arrived as %s whose id the client cannot resolve", sv.Name, b.p.String(), p.String())
					} else if name != b.p.Topic {
						vd.Add("C02", "C02/wrong-topic/"+kind, "session %s: broker %s arrived as %s which the client resolves to %q", sv.Name, b.p.String(), p.String(), name)
					}
					if p.QoS != b.p.QoS {
						vd.Add("C02", "C02/field-mismatch/qos", "session %s: broker %s arrived as %s", sv.Name, b.p.String(), p.String())
					}
					if p.Retain != b.p.Retain {
						vd.Add("C02", "C02/field-mismatch/retain", "session %s: broker %s arrived as %s", sv.Name, b.p.String(), p.String())
					}
					if !bytes.Equal(p.Data, b.p.Payload) {
						vd.Add("C02", "C02/field-mismatch/payload", "session %s", sv.Name)
					}
				}
			}
			t.step(e)
			if t.asleep || t.ended || t.brokerDown {
				cut = true
			}
		}
		if !lossless || cut {
			continue
		}
		pol := v.R.Plan.peerPolicy(sv.Peer)
		if pol.Register == "reject" || pol.Register == "ignore" || pol.SilentAtMs > 0 {
			continue
		}
		endT := v.R.SimNs
		for _, b := range sent {
			if b.live && b.seen == 0 && byPayload[string(b.p.Payload)] == b && endT-b.t > int64(4e9) && len(b.p.Payload) <= 7168 {
				k := "known-id"
				if !pkIsShort(b.p.Topic) {
					if _, ok := refPredefAny(cfg.Predefined, t.cid, b.p.Topic); !ok {
						found := false
						for _, n := range know {
							if n == b.p.Topic {
								found = true
							}
						}
						if !found {
							k = "needs-register"
						}
					}
				}
				vd.Add("C02", "C02/not-delivered/"+k+fmt.Sprintf("/qos%d", b.p.QoS), "session %s: broker %s (t=%d) never reached the active client", sv.Name, b.p.String(), b.t)
			}
		}
	}
}

func pkIsShort(s string) bool { return len(s) == 2 }

func refPredefAny(m map[string]map[uint16]string, cid, name string) (uint16, bool) {
	ids := refPredefIDs(m, cid, name)
	if len(ids) > 0 {
		return ids[0], true
	}
	return 0, false
}

func (p *Plan) peerPolicy(name string) PeerPolicy {
	for i := range p.Peers {
		if p.Peers[i].Name == name {
			return p.Peers[i].Policy
		}
	}
	return PeerPolicy{}
}

// genC02: an active raw peer (some registrations and subscriptions of its own), broker publishes
// on short, predefined, registered and brand-new names, singly and in bursts.
func genC02(g *Gen, idx int) *Plan {
	cfg := g.BaseCfg()
	cfg.Sched = g.Sched("gateway/handler1.go", "gateway/broker_publish")
	cfg.Predefined = g.Predef([]string{"c1"})
	p := &Plan{Family: "C02-gw", Cfg: cfg}
	sg := &sessGen{g: g, cid: "c1"}
	sg.gap(5, 200)
	sg.add(connectPkt("c1", uint16(g.Range(20, 120)), false, true))
	sg.gap(300, 800)
	n := int(g.Range(0, 4))
	for i := 0; i < n; i++ {
		switch g.Intn(3) {
		case 0:
			sg.add(refsn.Pkt{Type: refsn.REGISTER, MsgID: sg.nextMid(), TopicName: namePool[g.Intn(len(namePool))]})
		case 1:
			sg.add(refsn.Pkt{Type: refsn.SUBSCRIBE, MsgID: sg.nextMid(), TIT: refsn.TITNormal, TopicName: namePool[g.Intn(len(namePool))], QoS: uint8(g.Intn(3))})
		case 2:
			sg.add(refsn.Pkt{Type: refsn.SUBSCRIBE, MsgID: sg.nextMid(), TIT: refsn.TITNormal, TopicName: wildPool[g.Intn(len(wildPool))], QoS: uint8(g.Intn(3))})
		}
		sg.gap(50, 600)
	}
	start := sg.t + 300
	ni := int(g.Range(1, 8))
	p.Broker.Injects = g.injects("p1", ni, start, start+6000, "m")
	if g.Bool(0.3) {
		k := g.Intn(len(p.Broker.Injects))
		p.Broker.Injects[k].Burst = int(g.Range(1, 3))
	}
	if g.Bool(0.1) {
		p.Broker.Injects[0].Payload = serialPayload("big", 0, int(g.Range(7000, 7150)))
	}
	if g.Bool(0.35) {
		// retained messages published on SUBSCRIBE, some before the SUBACK that announces the topic id
		// (in-order link, otherwise a PUBLISH may overtake the SUBACK that precedes it)
		p.Cfg.SN.FIFO = true
		for k := 0; k < int(g.Range(1, 3)); k++ {
			p.Broker.Retained = append(p.Broker.Retained, BrokerRetained{Topic: namePool[g.Intn(len(namePool))], Payload: serialPayload("r", k, int(g.Range(0, 10))), QoS: uint8(g.Intn(3)), Early: g.Bool(0.6)})
		}
		if g.Bool(0.4) {
			p.Broker.AnswerDelayMs = g.Range(20, 300)
		}
	}
	if g.Bool(0.2) {
		// the broker refuses some of the subscriptions (SUBACK 0x80): a refused SUBSCRIBE tells the client
		// no topic id, whatever the gateway had reserved for it
		p.Family = "C02-gw-refused-subscriptions"
		p.Broker.SubackCodes = [][]byte{{0x80}, {0x80, 0}, {0, 0x80, 1}, {0x80, 0x80, 2}}[g.Intn(4)]
	}
	p.Peers = []PeerPlan{{Name: "p1", Ops: sg.ops}}
	p.Cfg.HorizonMs = start + 6000 + 6000
	return p
}

// genC01Unsub: a topic id stays valid for the whole session, subscribed or not: REGISTER or SUBSCRIBE
// gives a name its id, UNSUBSCRIBE of that very name follows, then PUBLISHes with the id.
func genC01Unsub(g *Gen) *Plan {
	cfg := g.BaseCfg()
	cfg.Sched = g.Sched("gateway/handler1.go")
	p := &Plan{Family: "C01-unsubscribe-then-publish", Cfg: cfg}
	sg := &sessGen{g: g, cid: "c1"}
	sg.gap(5, 200)
	sg.add(connectPkt("c1", 60, false, true))
	sg.gap(300, 800)
	names := []string{"t/a", "t/b", "dev/1/temp"}
	n := int(g.Range(1, 3))
	for i := 0; i < n; i++ {
		if g.Bool(0.5) {
			sg.add(refsn.Pkt{Type: refsn.REGISTER, MsgID: sg.nextMid(), TopicName: names[i]})
		} else {
			sg.add(refsn.Pkt{Type: refsn.SUBSCRIBE, MsgID: sg.nextMid(), TIT: refsn.TITNormal, TopicName: names[i], QoS: uint8(g.Intn(3))})
		}
		sg.gap(100, 500)
	}
	for i := 0; i < n; i++ {
		if g.Bool(0.7) {
			sg.add(refsn.Pkt{Type: refsn.UNSUBSCRIBE, MsgID: sg.nextMid(), TIT: refsn.TITNormal, TopicName: names[i]})
			sg.gap(100, 500)
		}
	}
	for k := 0; k < int(g.Range(1, 4)); k++ {
		q := uint8(g.Intn(3))
		pk := refsn.Pkt{Type: refsn.PUBLISH, TIT: refsn.TITNormal, TopicID: uint16(1 + g.Intn(n)), QoS: q, Retain: g.Bool(0.2), Data: sg.payload()}
		if q > 0 {
			pk.MsgID = sg.nextMid()
		}
		sg.add(pk)
		sg.gap(50, 400)
	}
	p.Peers = []PeerPlan{{Name: "p1", Ops: sg.ops, Policy: PeerPolicy{WillTopic: "w/t"}}}
	p.Cfg.HorizonMs = sg.t + 3000
	return p
}

func genC01(g *Gen, idx int) *Plan {
	if idx%10 == 9 {
		return genC01Unsub(g)
	}
	p := genGWMix(g, 0.12, "C01-gwmix")
	for i := range p.Peers {
		p.Peers[i].Policy.WillTopic = "w/t"
	}
	if g.Bool(0.3) {
		p.Cfg.SN.Dup = 0.08
	}
	return p
}

// genC03LateBroker: the broker answers PINGREQs later than half a keep-alive while the client shows it is
// alive with packets the gateway does not relay (REGISTER): the gateway pings the broker itself, several
// of its pings are unanswered at a time, and their late PINGRESPs must all be swallowed — the client
// gets exactly one PINGRESP per PINGREQ of its own.
func genC03LateBroker(g *Gen) *Plan {
	cfg := g.BaseCfg()
	cfg.Sched = g.Sched("gateway/handler1.go")
	p := &Plan{Family: "C03-gw-late-broker", Cfg: cfg}
	sg := &sessGen{g: g, cid: "c1"}
	ka := g.Range(2, 6)
	p.Broker.AnswerDelayMs = ka * 1000 * g.Range(55, 140) / 100
	sg.gap(5, 200)
	sg.add(connectPkt("c1", uint16(ka), false, true))
	sg.t += p.Broker.AnswerDelayMs
	sg.gap(200, 500)
	for i := 0; i < int(g.Range(3, 7)); i++ {
		sg.gap(ka*1000*52/100, ka*1000*90/100)
		if g.Bool(0.75) {
			sg.add(refsn.Pkt{Type: refsn.REGISTER, MsgID: sg.nextMid(), TopicName: fmt.Sprintf("lb/%d", i)})
		} else {
			sg.add(refsn.Pkt{Type: refsn.PINGREQ})
		}
	}
	sg.gap(p.Broker.AnswerDelayMs+200, p.Broker.AnswerDelayMs+900) // every late answer is in
	sg.add(refsn.Pkt{Type: refsn.PINGREQ})
	sg.gap(p.Broker.AnswerDelayMs+300, p.Broker.AnswerDelayMs+900)
	p.Peers = []PeerPlan{{Name: "p1", Ops: sg.ops}}
	p.Cfg.HorizonMs = sg.t + 2000
	return p
}

func genC03(g *Gen, idx int) *Plan {
	if idx%8 == 7 {
		return genC03LateBroker(g)
	}
	cfg := g.BaseCfg()
	cfg.Sched = g.Sched("gateway/handler1.go", "gateway/subscribe_transaction.go")
	cfg.Predefined = g.PredefWithFilters([]string{"c1"})
	p := &Plan{Family: "C03-gw", Cfg: cfg}
	sg := &sessGen{g: g, cid: "c1"}
	sg.gap(5, 200)
	ka := uint16(g.Range(20, 120))
	longSleep := g.Bool(0.25)
	if longSleep {
		ka = uint16(g.Range(2, 6))
	}
	sg.add(connectPkt("c1", ka, false, true))
	sg.gap(300, 800)
	if longSleep {
		// a sleep longer than the keep-alive: the gateway pings the broker on the client's behalf and the
		// broker answers while the client sleeps; back in the active state the client's own pings must
		// be answered one-to-one again
		d := int64(ka) + g.Range(2, 2*int64(ka))
		sg.add(refsn.Pkt{Type: refsn.DISCONNECT, HasDur: true, Duration: uint16(d)})
		sg.gap(int64(ka)*1000+600, d*1000-300)
		if g.Bool(0.4) {
			sg.add(refsn.Pkt{Type: refsn.PINGREQ, Data: []byte("c1")})
			sg.gap(int64(ka)*1000+600, d*1000-300)
		}
		sg.add(connectPkt("c1", ka, false, false))
		sg.gap(300, 700)
		sg.add(refsn.Pkt{Type: refsn.PINGREQ})
		sg.gap(300, int64(ka)*1000-400)
	}
	n := int(g.Range(3, 12))
	for i := 0; i < n; i++ {
		c := g.Intn(10)
		if longSleep && i%2 == 0 {
			c = 6 // keep the session alive (and keep asking for PINGRESPs)
		}
		switch c {
		case 0, 1, 2, 3:
			s := refsn.Pkt{Type: refsn.SUBSCRIBE, MsgID: sg.nextMid(), QoS: uint8(g.Intn(3)), Dup: g.Bool(0.1)}
			switch g.Intn(4) {
			case 0:
				s.TIT, s.TopicName = refsn.TITNormal, namePool[g.Intn(len(namePool))]
			case 1:
				s.TIT, s.TopicName = refsn.TITNormal, wildPool[g.Intn(len(wildPool))]
			case 2:
				s.TIT, s.TopicID = refsn.TITPredefined, uint16(g.Range(1, 8))
			case 3:
				s.TIT, s.TopicID = refsn.TITShort, g.shortID()
			}
			sg.add(s)
		case 4, 5:
			s := refsn.Pkt{Type: refsn.UNSUBSCRIBE, MsgID: sg.nextMid()}
			switch g.Intn(3) {
			case 0:
				s.TIT, s.TopicName = refsn.TITNormal, append(namePool, wildPool...)[g.Intn(len(namePool)+len(wildPool))]
			case 1:
				s.TIT, s.TopicID = refsn.TITPredefined, uint16(g.Range(1, 8))
			case 2:
				s.TIT, s.TopicID = refsn.TITShort, g.shortID()
			}
			sg.add(s)
		case 6:
			sg.add(refsn.Pkt{Type: refsn.PINGREQ})
		case 7:
			// a QoS 2 publish of the peer: PUBREC comes back, the peer's policy answers PUBREL, PUBCOMP comes back
			sg.add(refsn.Pkt{Type: refsn.PUBLISH, TIT: refsn.TITShort, TopicID: refsn.ShortID("ab"), QoS: 2, MsgID: sg.nextMid(), Data: sg.payload()})
		case 8:
			sg.add(refsn.Pkt{Type: refsn.PUBREL, MsgID: uint16(g.Range(1, 50))})
		case 9:
			sg.add(refsn.Pkt{Type: refsn.REGISTER, MsgID: sg.nextMid(), TopicName: namePool[g.Intn(len(namePool))]})
		}
		sg.gap(100, 900)
	}
	if g.Bool(0.6) {
		sg.add(refsn.Pkt{Type: refsn.DISCONNECT})
	}
	if longSleep {
		p.Family = "C03-gw-long-sleep"
	}
	// broker SUBACK codes independent of the requested QoS
	codes := []byte{0, 1, 2, 0x80}
	k := int(g.Range(1, 4))
	for i := 0; i < k; i++ {
		p.Broker.SubackCodes = append(p.Broker.SubackCodes, codes[g.Intn(4)])
	}
	p.Peers = []PeerPlan{{Name: "p1", Ops: sg.ops}}
	p.Cfg.HorizonMs = sg.t + 3000
	return p
}

// genC04: long allocation histories; mostly with a shrunken id space so that exhaustion and the
// behaviour after it are reached in tens of operations.
func genC04(g *Gen, idx int) *Plan {
	cfg := g.BaseCfg()
	cfg.Sched = g.Sched("gateway/handler1.go", "util/id_sequence.go")
	cfg.Predefined = g.Predef([]string{"c1"})
	full := g.Tier == "thorough" && idx%2000 == 1999
	if !full {
		cfg.MaxTopicAlias = uint16(g.Range(3, 40))
	}
	p := &Plan{Family: "C04-shrunk", Cfg: cfg}
	sg := &sessGen{g: g, cid: "c1"}
	sg.gap(5, 200)
	sg.add(connectPkt("c1", 600, false, true))
	sg.gap(300, 800)
	n := int(g.Range(6, 70))
	if full {
		p.Family = "C04-full-range"
		n = 65534 + int(g.Range(2, 30))
		p.Cfg.Sched.Density, p.Cfg.Sched.FocusDensity = 0, 0
	}
	fresh := 0
	for i := 0; i < n; i++ {
		name := ""
		if g.Bool(0.8) || full {
			fresh++
			name = fmt.Sprintf("u/%d", fresh)
		} else {
			name = fmt.Sprintf("u/%d", g.Range(1, int64(fresh)+1))
			if g.Bool(0.3) {
				name = "bn/" + name // read back an id the gateway may have handed out on its own (broker publish)
			}
		}
		switch {
		case full || g.Bool(0.55):
			sg.add(refsn.Pkt{Type: refsn.REGISTER, MsgID: sg.nextMid(), TopicName: name})
		case g.Bool(0.5):
			sg.add(refsn.Pkt{Type: refsn.SUBSCRIBE, MsgID: sg.nextMid(), TIT: refsn.TITNormal, TopicName: name, QoS: uint8(g.Intn(3))})
		default:
			p.Broker.Injects = append(p.Broker.Injects, BrokerInject{AtMs: sg.t, Session: "p1", Force: true, Topic: "bn/" + name, Payload: serialPayload("m", i, 2), QoS: uint8(g.Intn(3))})
		}
		if full {
			sg.t += 2
		} else {
			sg.gap(20, 300)
		}
	}
	if !full && idx%4 == 3 {
		// predefined ids at the very top of the range (a configuration that keeps them away from the ids
		// handed out dynamically), and from some point on a client REGISTER and a broker PUBLISH on a
		// brand-new topic reach the gateway at the same instant: its two receive loops look for a free id
		// concurrently while the sequence wraps around inside the predefined block
		p.Family = "C04-top-block-concurrent"
		m := p.Cfg.MaxTopicAlias
		top := map[uint16]string{}
		for k, nm := range []string{"pre/1", "pre/2", "pre/3", "pre/x/y"}[:int(g.Range(1, 4))] {
			top[m-uint16(k)] = nm
		}
		p.Cfg.Predefined = map[string]map[uint16]string{"*": top}
		lat := g.Range(200, 2000)
		p.Cfg.SN.MinLatUs, p.Cfg.SN.MaxLatUs = lat, lat
		p.Cfg.MQ.MinLatUs, p.Cfg.MQ.MaxLatUs = lat, lat
		p.Cfg.SN.Dup = 0
		sg.ops = sg.ops[:1]
		sg.t = sg.ops[0].AtMs + g.Range(300, 800)
		p.Broker.Injects = nil
		for i := 0; i < int(m)/2+4; i++ {
			sg.add(refsn.Pkt{Type: refsn.REGISTER, MsgID: sg.nextMid(), TopicName: fmt.Sprintf("v/%d", i)})
			if g.Bool(0.8) {
				p.Broker.Injects = append(p.Broker.Injects, BrokerInject{AtMs: sg.t, Session: "p1", Force: true, Topic: fmt.Sprintf("bv/%d", i), Payload: serialPayload("m", i, 2), QoS: 0})
			}
			sg.gap(20, 200)
		}
		p.Cfg.Sched = simrt.SchedCfg{Density: 0.5 + g.Float()*0.5, Overlap: true, Sticky: []float64{0, 0.5, 0.9}[g.Intn(3)]}
	}
	p.Peers = []PeerPlan{{Name: "p1", Ops: sg.ops}}
	if !full && g.Bool(0.3) {
		p.Peers[0].Policy.Register = "accept-stale-id"
	}
	if !full && g.Bool(0.3) {
		p.Cfg.SN.Dup = 0.1 + g.Float()*0.3
	}
	p.Cfg.HorizonMs = sg.t + 3000
	return p
}

func init() {
	Register(&Check{ID: "C01", Level: "exploration",
		Rule:   "random raw-peer sessions against the real gateway: REGISTER/SUBSCRIBE/broker-publish histories interleaved with PUBLISH over all flag combinations, topic-id types and ids (registered, predefined incl. shadowed, short, unknown, 0, 0xFFFF), payload sizes at the header-form boundary and MaxPayloadLength, duplication/reordering on; a shadow of what each id denotes is kept from what the gateway itself acknowledged; non-trivial = at least one PUBLISH consumed in an accepted state; distinct = distinct canonical history",
		Gen:    genC01, Oracle: oracleC01, Quick: 600, Thorough: 80000})
	Register(&Check{ID: "C02", Level: "exploration",
		Rule:   "an active raw peer with its own registrations/subscriptions; the broker model publishes QoS 0-2 on short, predefined (overlapping configurations), registered and brand-new names, singly and in bursts; the peer keeps its knowledge table exactly as a client would and every PUBLISH it receives must resolve, by that table, to the broker's topic; non-trivial = a broker PUBLISH reached the peer",
		Gen:    genC02, Oracle: oracleC02, Quick: 1500, Thorough: 120000})
	Register(&Check{ID: "C03", Level: "exploration",
		Rule:   "raw peer sends SUBSCRIBE/UNSUBSCRIBE (all topic-id types, QoS 0-2, DUP), PUBREL, PINGREQ, DISCONNECT, QoS 2 publishes; the broker answers SUBACK with scripted codes {0,1,2,0x80} independent of the requested QoS; one translated packet per input with equal id/filter/QoS; SUBACK accept/QoS/topic-id rules; non-trivial = at least one control packet translated or SUBACK judged",
		Gen:    genC03, Oracle: oracleC03, Quick: 1500, Thorough: 120000})
	Register(&Check{ID: "C04", Level: "exploration",
		Rule:   "long REGISTER/SUBSCRIBE/broker-publish sequences; id space shrunk to 3..40 ids through the MaxTopicAlias seam (real 0xFFFE range every 2000th thorough run, 65534+ registrations); every fourth shrunk plan puts the predefined ids at the top of the range and lets a client REGISTER and a broker PUBLISH on a new topic arrive at the same virtual instant (equal fixed link latencies) around the wrap; ids seen in REGACK/SUBACK/gateway REGISTER must be in range, never a predefined id visible to that client, and id->name must stay a function also after exhaustion; non-trivial = >= 3 allocations",
		Gen:    genC04, Oracle: oracleC04, Quick: 500, Thorough: 20000,
		Assumptions: []string{"shrunken-space runs replace the constant packets.MaxTopicAlias by a smaller value through the build overlay; the range rule is checked against the real bound 0xFFFE"}})
}
