package world

import (
	"strings"

	"verifsim/refsn"
)

type refsnPkt = refsn.Pkt

// apiCall is one client-library API call with its outcome.
type apiCall struct {
	client   string
	idx      int
	op       string // first word of the description
	desc     string
	invT     int64
	invIdx   int
	retT     int64
	retIdx   int
	returned bool
	err      string
	payload  []byte
}

// apiCalls extracts the API calls of all real clients in execution order.
func apiCalls(v *View) []*apiCall {
	var out []*apiCall
	open := map[string]*apiCall{}
	for i, rec := range v.R.Hist {
		if !strings.HasPrefix(rec.Ch, "api:") {
			continue
		}
		cl := rec.Ch[4:]
		key := cl + "#" + itoa(int(rec.I))
		switch rec.Kind {
		case "invoke":
			a := &apiCall{client: cl, idx: int(rec.I), desc: rec.S, op: strings.Fields(rec.S)[0], invT: rec.T, invIdx: i, payload: rec.B}
			open[key] = a
			out = append(out, a)
		case "return":
			if a := open[key]; a != nil {
				a.returned, a.retT, a.retIdx, a.err = true, rec.T, i, rec.S
			}
		}
	}
	return out
}

func itoa(n int) string {
	if n == 0 {
		return "0"
	}
	neg := n < 0
	if neg {
		n = -n
	}
	var b []byte
	for n > 0 {
		b = append([]byte{byte('0' + n%10)}, b...)
		n /= 10
	}
	if neg {
		b = append([]byte{'-'}, b...)
	}
	return string(b)
}

// clientTx lists datagrams a real client sent (decoded), in order.
func clientTx(v *View, name string) []Ev {
	var out []Ev
	for i, rec := range v.R.Hist {
		if rec.Ch == "cl.sn:"+name+">" && rec.Kind == "tx" {
			p, err := refsn.Decode(rec.B)
			out = append(out, Ev{Idx: i, T: rec.T, Kind: EvPeerTx, Raw: rec.B, SN: p, SNErr: err})
		}
	}
	return out
}

// clientRx lists datagrams a real client read, in order.
func clientRx(v *View, name string) []Ev {
	var out []Ev
	for i, rec := range v.R.Hist {
		if rec.Ch == "cl.sn:"+name+"<" && rec.Kind == "rx" {
			p, err := refsn.Decode(rec.B)
			out = append(out, Ev{Idx: i, T: rec.T, Kind: EvPeerRx, Raw: rec.B, SN: p, SNErr: err})
		}
	}
	return out
}

// clientDlv lists datagrams that reached a real client's socket (whether or not it has read them).
func clientDlv(v *View, name string) []Ev {
	var out []Ev
	for i, rec := range v.R.Hist {
		if rec.Ch == "cl.sn:"+name+"<" && rec.Kind == "dlv" {
			p, err := refsn.Decode(rec.B)
			out = append(out, Ev{Idx: i, T: rec.T, Kind: EvPeerRx, Raw: rec.B, SN: p, SNErr: err})
		}
	}
	return out
}

// handlerCalls lists subscription-handler invocations of a client: (filter, topic, payload, qos).
type handlerCall struct {
	idx     int
	t       int64
	filter  string
	topic   string
	payload []byte
	qos     uint8
}

func handlerCalls(v *View, name string) []handlerCall {
	var out []handlerCall
	for i, rec := range v.R.Hist {
		if rec.Ch == "handler:"+name && rec.Kind == "msg" {
			k := strings.Index(rec.S, "|")
			out = append(out, handlerCall{idx: i, t: rec.T, filter: rec.S[:k], topic: rec.S[k+1:], payload: rec.B, qos: uint8(rec.I)})
		}
	}
	return out
}
