package world

import (
	"time"
	"sort"
	"bytes"
	"fmt"
	"strings"

	"verifsim/refmqtt"
	"verifsim/refsn"
	"verifsim/simrt"
)

// clBase: one real client against the scripted gateway.
func (g *Gen) clBase(tag string) (*Plan, *ClientPlan) {
	cfg := Config{RetryDelayMs: g.Range(300, 3000), RetryCount: uint(g.Range(0, 3)), HorizonMs: 120000}
	cfg.SN = LinkProfile{MinLatUs: 100, MaxLatUs: g.Range(500, 20000), FIFO: true}
	cfg.Sched = g.Sched("client/", "transactions/")
	p := &Plan{Family: tag, Cfg: cfg, SGW: &SGWPlan{}}
	p.Clients = []ClientPlan{{Name: "cl1", ClientID: "c1", Clean: true, ConnectTimeoutMs: g.Range(500, 3000), RetryDelayMs: cfg.RetryDelayMs, RetryCount: cfg.RetryCount}}
	return p, &p.Clients[0]
}

func apiBound(p *Plan, cp *ClientPlan, a *apiCall) int64 {
	rd := cp.RetryDelayMs * nsMs
	n := int64(cp.RetryCount) + 1
	// 50 ms of latency/jitter + the client's receive-loop poll interval (1 s): a call that ends
	// because the client terminates returns group.Wait(), which waits for the receive loop
	eps := 50*nsMs + 1000*nsMs
	switch a.op {
	case "dial":
		return eps
	case "connect":
		return n*cp.ConnectTimeoutMs*nsMs + eps
	case "publish", "publish_pre":
		if strings.Contains(a.desc, "qos=2") {
			return 2*n*rd + eps
		}
		return n*rd + eps
	case "sleep":
		var d int64
		fmt.Sscanf(a.desc, "sleep %dms", &d)
		return n*rd + d*nsMs + 60000*nsMs + eps
	case "wait", "close":
		return n*rd + 1100*nsMs + eps
	}
	return n*rd + eps
}

// ---------------------------------------------------------------------------------------------
// C17: client library QoS guarantees under loss

func oracleC17(v *View, vd *Verdict) {
	for ci := range v.R.Plan.Clients {
		cp := &v.R.Plan.Clients[ci]
		tx := clientTx(v, cp.Name)
		rx := clientRx(v, cp.Name)
		// (b) retransmissions: same id => DUP set, same body
		type first struct {
			raw []byte
			n   int
		}
		seen := map[string]*first{}
		for _, e := range tx {
			if e.SNErr != nil {
				continue
			}
			p := e.SN
			if (p.Type == refsn.PUBLISH && (p.QoS == 1 || p.QoS == 2)) || p.Type == refsn.SUBSCRIBE {
				k := fmt.Sprintf("%s/%d", p.Name(), p.MsgID)
				f := seen[k]
				if f == nil {
					seen[k] = &first{raw: e.Raw}
					if p.Dup {
						vd.Add("C17", "C17/dup-on-first-transmission/"+p.Name(), "client %s: first %s already carries DUP", cp.Name, p.String())
					}
					continue
				}
				f.n++
				vd.Trigger = true
				if !p.Dup {
					vd.Add("C17", "C17/retransmission-without-dup/"+p.Name(), "client %s: retransmission #%d of %s without DUP", cp.Name, f.n, p.String())
				}
				a, b := append([]byte(nil), f.raw...), append([]byte(nil), e.Raw...)
				// compare modulo the DUP bit
				if len(a) == len(b) {
					fi := 2
					if a[0] == 1 {
						fi = 4
					}
					a[fi] &^= 0x80
					b[fi] &^= 0x80
				}
				if !bytes.Equal(a, b) {
					vd.Add("C17", "C17/retransmission-differs/"+p.Name(), "client %s: retransmission of %s differs from the original beyond the DUP bit", cp.Name, p.String())
				}
			}
		}
		// (c) every PUBREL received is answered by a PUBCOMP with the same id
		for i, e := range rx {
			if e.SNErr != nil || e.SN.Type != refsn.PUBREL {
				continue
			}
			vd.Trigger = true
			nextRx := int(^uint(0) >> 1)
			if i+1 < len(rx) {
				nextRx = rx[i+1].Idx
			}
			ok := false
			for _, t := range tx {
				if t.Idx > e.Idx && t.Idx < nextRx && t.SNErr == nil && t.SN.Type == refsn.PUBCOMP && t.SN.MsgID == e.SN.MsgID {
					ok = true
				}
			}
			// the client must still be running
			alive := true
			for _, a := range apiCalls(v) {
				if a.client == cp.Name && (a.op == "disconnect" || a.op == "close") && a.invIdx < e.Idx {
					alive = false
				}
			}
			if !ok && alive {
				nth := 0
				for _, q := range rx[:i] {
					if q.SNErr == nil && q.SN.Type == refsn.PUBREL && q.SN.MsgID == e.SN.MsgID {
						nth++
					}
				}
				which := "first"
				if nth > 0 {
					which = "repeated"
				}
				vd.Add("C17", "C17/pubrel-not-answered/"+which, "client %s: %s PUBREL(id=%d) at %d not answered with PUBCOMP", cp.Name, which, e.SN.MsgID, e.T)
			}
		}
		// (a) Publish returns nil exactly when acknowledged
		mids := map[int]uint16{} // api idx -> msg id (first PUBLISH sent after the invoke)
		for _, a := range apiCalls(v) {
			if a.client != cp.Name || !strings.HasPrefix(a.op, "publish") || !a.returned {
				continue
			}
			q := -1
			fmt.Sscanf(a.desc[strings.Index(a.desc, "qos=")+4:], "%d", &q)
			if q != 1 && q != 2 {
				continue
			}
			var mid uint16
			found := false
			pubT, relT := int64(-1), int64(-1) // first transmission of each step
			for _, t := range tx {
				// (concurrent Publish calls of handlers: the call's PUBLISH is the one with its payload)
				if t.Idx > a.invIdx && t.Idx < a.retIdx && t.SNErr == nil && t.SN.Type == refsn.PUBLISH && !found && (cp.EchoQoS == 0 || bytes.Equal(t.SN.Data, a.payload)) {
					mid, found = t.SN.MsgID, true
					pubT = t.T
				}
				if found && relT < 0 && t.Idx > a.invIdx && t.Idx < a.retIdx && t.SNErr == nil && t.SN.Type == refsn.PUBREL && t.SN.MsgID == mid {
					relT = t.T
				}
			}
			if !found {
				// the very first write failed: the call is right to fail — and then nothing of it may
				// live on (a retransmission that the gateway acknowledges after all)
				if a.err != "nil" {
					for i := a.invIdx; i < a.retIdx && i < len(v.R.Hist); i++ {
						rec := v.R.Hist[i]
						if rec.Ch != "cl.sn:"+cp.Name+">" || rec.Kind != "tx-error" {
							continue
						}
						fp, err := refsn.Decode(rec.B)
						if err != nil || fp.Type != refsn.PUBLISH {
							continue
						}
						vd.Trigger = true
						for _, t := range tx {
							if t.Idx > a.retIdx && t.SNErr == nil && t.SN.Type == refsn.PUBLISH && t.SN.MsgID == fp.MsgID && t.SN.Dup {
								vd.Add("C17", fmt.Sprintf("C17/publish-lives-on-after-failure/qos%d", q), "client %s: Publish QoS %d id %d returned %q (its first write failed), yet the PUBLISH was retransmitted at %d", cp.Name, q, fp.MsgID, a.err, t.T)
								break
							}
						}
						break
					}
				}
				continue
			}
			mids[a.idx] = mid
			vd.Trigger = true
			// "within the retry budget": each step allows (RetryCount+1) x RetryDelay from its first
			// transmission; an acknowledgement read later than that (less what the scheduler stalled
			// the client for) came too late, and the call is right to fail
			budget := (int64(cp.RetryCount) + 1) * cp.RetryDelayMs * nsMs
			inTime := func(stepT, ackT int64) bool {
				return stepT >= 0 && ackT <= stepT+budget-v.R.StalledNs-nsMs
			}
			acked, ackedAtAll := false, false
			gotRec, gotRecAtAll := false, false
			// a write of the client's own that failed during the call ends the call with that error: an
			// acknowledgement read after it came too late to count (either result is then right)
			werrIdx := -1
			for i := a.invIdx; i < a.retIdx && i < len(v.R.Hist); i++ {
				if rec := v.R.Hist[i]; rec.Ch == "cl.sn:"+cp.Name+">" && rec.Kind == "tx-error" {
					werrIdx = i
					break
				}
			}
			beforeWerr := func(idx int) bool { return werrIdx < 0 || idx < werrIdx }
			acks := rx
			if cp.EchoQoS > 0 {
				// nothing is lost and nothing else can end the client in these plans: "the gateway
				// acknowledged" is judged by what reached the client's socket — a client that does not
				// read it (its receive loop waits for its own handlers) has no excuse
				acks = clientDlv(v, cp.Name)
			}
			for _, r := range acks {
				if r.Idx < a.invIdx || r.Idx > a.retIdx || r.SNErr != nil || r.SN.MsgID != mid {
					continue
				}
				switch {
				case q == 1 && r.SN.Type == refsn.PUBACK && r.SN.RC == refsn.RCAccepted:
					acked, ackedAtAll = inTime(pubT, r.T) && beforeWerr(r.Idx), true
				case q == 2 && r.SN.Type == refsn.PUBREC:
					gotRec, gotRecAtAll = inTime(pubT, r.T), true
				case q == 2 && r.SN.Type == refsn.PUBCOMP:
					if gotRec {
						acked = inTime(relT, r.T) && beforeWerr(r.Idx)
					}
					if gotRecAtAll {
						ackedAtAll = true
					}
				}
			}
			if acked && a.err != "nil" {
				vd.Add("C17", fmt.Sprintf("C17/publish-failed-though-acked/qos%d", q), "client %s: Publish QoS %d id %d was acknowledged but returned %q", cp.Name, q, mid, a.err)
			}
			if !ackedAtAll && a.err == "nil" {
				vd.Add("C17", fmt.Sprintf("C17/publish-ok-without-ack/qos%d", q), "client %s: Publish QoS %d id %d returned nil without acknowledgement", cp.Name, q, mid)
			}
		}
	}
}

func genC17(g *Gen, idx int) *Plan {
	p, cp := g.clBase("C17-loss")
	ops := []ClientOp{{Op: "dial"}, {Op: "connect"}, {GapMs: 50, Op: "register", Topic: "t/a"}}
	n := int(g.Range(1, 4))
	for i := 0; i < n; i++ {
		switch g.Intn(5) {
		case 0, 1, 2:
			ops = append(ops, ClientOp{GapMs: g.Range(10, 500), Op: "publish", Topic: "t/a", QoS: uint8(1 + g.Intn(2)), Payload: serialPayload("p", i, int(g.Range(0, 40)))})
		case 3:
			ops = append(ops, ClientOp{GapMs: g.Range(10, 500), Op: "subscribe", Topic: []string{"t/#", "x/y", "ab"}[g.Intn(3)], QoS: uint8(g.Intn(3))})
		case 4:
			ops = append(ops, ClientOp{GapMs: g.Range(10, 500), Op: "publish", Topic: "ab", QoS: uint8(g.Intn(4)), Payload: serialPayload("s", i, 2)})
		}
	}
	ops = append(ops, ClientOp{GapMs: 200, Op: "disconnect"})
	cp.Ops = ops
	budget := int(cp.RetryCount)
	// ack loss / duplication / delay planned per class
	for _, cl := range []string{"PUBLISH", "PUBREL", "SUBSCRIBE"} {
		if g.Bool(0.45) {
			j := int(g.Range(1, int64(budget)+2)) // within and beyond the budget
			p.Cfg.SN.Rules = append(p.Cfg.SN.Rules, Rule{Dir: "c2g", Class: cl, Skip: g.Intn(2), Count: j, Act: "drop"})
		}
	}
	for _, cl := range []string{"PUBACK", "PUBREC", "PUBCOMP", "SUBACK"} {
		switch g.Intn(5) {
		case 0:
			p.Cfg.SN.Rules = append(p.Cfg.SN.Rules, Rule{Dir: "g2c", Class: cl, Count: int(g.Range(1, int64(budget)+2)), Act: "drop"})
		case 1:
			p.Cfg.SN.Rules = append(p.Cfg.SN.Rules, Rule{Dir: "g2c", Class: cl, Count: 2, Act: "dup"})
		case 2:
			p.Cfg.SN.Rules = append(p.Cfg.SN.Rules, Rule{Dir: "g2c", Class: cl, Count: 1, Act: "delay", DelayMs: g.Range(1, cp.RetryDelayMs*2)})
		}
	}
	// gateway-initiated QoS 2 with repeated PUBREL (also after the exchange finished)
	if g.Bool(0.4) {
		at := g.Range(300, 1500)
		mid := uint16(g.Range(200, 300))
		p.SGW.Ops = append(p.SGW.Ops,
			PeerOp{AtMs: at, Pkt: refsn.Pkt{Type: refsn.PUBLISH, TIT: refsn.TITShort, TopicID: refsn.ShortID("ab"), QoS: 2, MsgID: mid, Data: []byte("gwq2")}},
			PeerOp{AtMs: at + 200, Pkt: refsn.Pkt{Type: refsn.PUBREL, MsgID: mid}})
		if g.Bool(0.6) {
			p.SGW.Ops = append(p.SGW.Ops, PeerOp{AtMs: at + 200 + g.Range(50, 900), Pkt: refsn.Pkt{Type: refsn.PUBREL, MsgID: mid}})
		}
		if g.Bool(0.5) {
			// a second exchange finishes in between; then the PUBREL of the *older* one comes again (its
			// PUBCOMP was lost on the way)
			mid2 := mid + 1 + uint16(g.Intn(3))
			p.SGW.Ops = append(p.SGW.Ops,
				PeerOp{AtMs: at + g.Range(10, 150), Pkt: refsn.Pkt{Type: refsn.PUBLISH, TIT: refsn.TITShort, TopicID: refsn.ShortID("ab"), QoS: 2, MsgID: mid2, Data: []byte("gwq2b")}},
				PeerOp{AtMs: at + 200 + g.Range(10, 150), Pkt: refsn.Pkt{Type: refsn.PUBREL, MsgID: mid2}},
				PeerOp{AtMs: at + 200 + g.Range(400, 1200), Pkt: refsn.Pkt{Type: refsn.PUBREL, MsgID: mid}})
		}
		// the scripted gateway must not answer the client's PUBREC itself in this scenario
		p.SGW.Rules = append(p.SGW.Rules, SGWRule{On: "PUBREC", Act: "ignore"})
	}
	if idx%12 == 11 {
		// handlers that use the client API and wait for the reply (request/response, bridge), and a burst
		// of messages for them within one round trip; nothing is lost
		p.Family = "C17-echo-handlers"
		cp.EchoQoS = uint8(1 + g.Intn(2))
		cp.Ops = []ClientOp{{Op: "dial"}, {Op: "connect"}, {GapMs: 50, Op: "subscribe", Topic: "ab", QoS: 0}}
		p.Cfg.SN.Rules = nil
		p.SGW.Ops, p.SGW.Rules = nil, nil
		at := g.Range(400, 900)
		burst := int(g.Range(2, 12))
		for k := 0; k < burst; k++ {
			p.SGW.Ops = append(p.SGW.Ops, PeerOp{AtMs: at + int64(k)*g.Range(0, 2), Pkt: refsn.Pkt{Type: refsn.PUBLISH, TIT: refsn.TITShort, TopicID: refsn.ShortID("ab"), QoS: 0, Data: serialPayload("b", k, 2)}})
		}
		cp.Ops = append(cp.Ops, ClientOp{GapMs: at + 3*(int64(budget)+2)*cp.RetryDelayMs + 500, Op: "disconnect"})
		p.Cfg.HorizonMs = at + 4*(int64(budget)+2)*cp.RetryDelayMs + 6000
		return p
	}
	if g.Bool(0.1) {
		// the client's own write of a PUBLISH fails (ECONNREFUSED after an ICMP error), once
		p.Family = "C17-write-error"
		p.Cfg.SN.Rules = append(p.Cfg.SN.Rules, Rule{Dir: "c2g", Class: "PUBLISH", Skip: g.Intn(2), Count: 1, Act: "werr"})
	}
	if g.Bool(0.12) {
		// the gateway never acknowledges a PUBLISH and disconnects the client while the call waits:
		// the call must not report success
		p.Family = "C17-gw-disconnect"
		p.Cfg.SN.Rules = nil
		p.SGW.Rules = []SGWRule{{On: "PUBLISH", Act: "ignore"}}
		p.SGW.Ops = []PeerOp{{AtMs: g.Range(300, 2500), Pkt: refsn.Pkt{Type: refsn.DISCONNECT}}}
	}
	p.Cfg.HorizonMs = 4000 + int64(n+4)*(int64(budget)+2)*cp.RetryDelayMs*2
	return p
}

// ---------------------------------------------------------------------------------------------
// C27: client dispatch follows MQTT topic-filter matching

type subSpan struct {
	filter     string
	fromIdx    int // Subscribe returned nil
	invIdx     int // Subscribe invoked
	unsubInv   int // Unsubscribe invoked (-1)
	unsubRet   int // Unsubscribe returned nil (-1)
	gaps       [][2]int // Unsubscribe calls that failed: [invoked, returned]
}

func oracleC27(v *View, vd *Verdict) {
	for ci := range v.R.Plan.Clients {
		cp := &v.R.Plan.Clients[ci]
		var spans []*subSpan
		for _, a := range apiCalls(v) {
			if a.client != cp.Name {
				continue
			}
			switch a.op {
			case "subscribe":
				f := strings.Trim(strings.Fields(a.desc)[1], `"`)
				sp := &subSpan{filter: unq(a.desc), invIdx: a.invIdx, fromIdx: -1, unsubInv: -1, unsubRet: -1}
				_ = f
				if a.returned && a.err == "nil" {
					sp.fromIdx = a.retIdx
				}
				// a repeated subscription to the same filter replaces the handler: close the older span
				for _, o := range spans {
					if o.filter == sp.filter && o.unsubInv < 0 {
						o.unsubInv, o.unsubRet = a.invIdx, a.invIdx
					}
				}
				if a.returned && a.err != "nil" {
					continue
				}
				spans = append(spans, sp)
			case "unsubscribe":
				f := unq(a.desc)
				for _, o := range spans {
					if o.filter == f && o.unsubInv < 0 {
						if a.returned && a.err != "nil" {
							// Unsubscribe failed: the subscription is what it was; only the time of the call
							// itself is uncertain
							o.gaps = append(o.gaps, [2]int{a.invIdx, a.retIdx})
							continue
						}
						o.unsubInv = a.invIdx
						if a.returned && a.err == "nil" {
							o.unsubRet = a.retIdx
						} else {
							o.unsubRet = int(^uint(0) >> 1) // never definitely removed
						}
					}
				}
			}
		}
		calls := handlerCalls(v, cp.Name)
		byPayload := map[string][]handlerCall{}
		for _, c := range calls {
			byPayload[string(c.payload)] = append(byPayload[string(c.payload)], c)
		}
		// deliveries: PUBLISH QoS 0/1 on receipt, QoS 2 on PUBREL
		rx := clientRx(v, cp.Name)
		names := map[uint16]string{} // ids the client learnt (REGISTER from the gateway, SUBACK of its own SUBSCRIBE)
		pendSub := map[uint16]string{}
		for _, t := range clientTx(v, cp.Name) {
			if t.SNErr == nil && t.SN.Type == refsn.SUBSCRIBE && t.SN.TIT == refsn.TITNormal {
				pendSub[t.SN.MsgID] = t.SN.TopicName
			}
		}
		q2 := map[uint16]refsn.Pkt{}
		deliver := func(e Ev, p refsn.Pkt) {
			var topic string
			switch p.TIT {
			case refsn.TITShort:
				topic = refsn.ShortName(p.TopicID)
			case refsn.TITNormal:
				var ok bool
				if topic, ok = names[p.TopicID]; !ok {
					return
				}
			default:
				return
			}
			vd.Trigger = true
			definite, maybe := false, false
			for _, sp := range spans {
				if !refmqtt.Match(sp.filter, topic) && !clientMatchQuirk(sp.filter, topic) {
					continue
				}
				switch {
				case sp.fromIdx >= 0 && sp.fromIdx < e.Idx && (sp.unsubInv < 0 || sp.unsubInv > e.Idx):
					inGap := false
					for _, gp := range sp.gaps {
						if e.Idx >= gp[0] && e.Idx <= gp[1] {
							inGap = true
						}
					}
					if inGap {
						maybe = true
					} else {
						definite = true
					}
				case sp.invIdx < e.Idx && (sp.unsubRet < 0 || sp.unsubRet > e.Idx):
					maybe = true
				}
			}
			hc := byPayload[string(p.Data)]
			for _, c := range hc {
				if !refmqtt.Match(c.filter, topic) {
					vd.Add("C27", "C27/callback-of-non-matching-filter", "client %s: topic %q delivered to the callback of filter %q", cp.Name, topic, c.filter)
				}
				// a filter whose Unsubscribe returned nil must not be invoked for later deliveries
				for _, sp := range spans {
					if sp.filter == c.filter && sp.unsubRet >= 0 && sp.unsubRet < e.Idx && sp.unsubRet != int(^uint(0)>>1) {
						still := false
						for _, o := range spans {
							if o.filter == c.filter && o != sp && o.invIdx >= sp.unsubInv && o.invIdx < e.Idx {
								still = true
							}
						}
						if !still {
							vd.Add("C27", "C27/callback-after-unsubscribe", "client %s: callback of %q invoked for %q after Unsubscribe succeeded", cp.Name, c.filter, topic)
						}
					}
				}
			}
			switch {
			case len(hc) == 0 && definite:
				vd.Add("C27", "C27/no-callback-for-matching-subscription", "client %s: topic %q delivered (t=%d) but no callback ran although a current subscription matches", cp.Name, topic, e.T)
			case len(hc) > 0 && !definite && !maybe:
				vd.Add("C27", "C27/callback-without-subscription", "client %s: topic %q invoked a callback (%q) with no current matching subscription", cp.Name, topic, hc[0].filter)
			case len(hc) > 1:
				vd.Add("C27", "C27/delivered-to-several-callbacks", "client %s: one delivery of %q ran %d callbacks", cp.Name, topic, len(hc))
			}
		}
		for _, e := range rx {
			if e.SNErr != nil {
				continue
			}
			p := e.SN
			switch p.Type {
			case refsn.REGISTER:
				if _, dup := nameTaken(names, p.TopicName); !dup {
					names[p.TopicID] = p.TopicName
				}
			case refsn.SUBACK:
				if n, ok := pendSub[p.MsgID]; ok && p.RC == refsn.RCAccepted && p.TopicID != 0 {
					if old, dup := nameTaken(names, n); dup {
						delete(names, old)
					}
					names[p.TopicID] = n
				}
			case refsn.PUBLISH:
				if p.QoS == 2 {
					q2[p.MsgID] = p
				} else {
					deliver(e, p)
				}
			case refsn.PUBREL:
				if pp, ok := q2[p.MsgID]; ok {
					delete(q2, p.MsgID)
					deliver(e, pp)
				}
			}
		}
	}
}

// paho-style matching treats nothing specially that MQTT 4.7 does not, for the alphabet used here.
func clientMatchQuirk(filter, topic string) bool { return false }

func nameTaken(m map[uint16]string, name string) (uint16, bool) {
	for id, n := range m {
		if n == name {
			return id, true
		}
	}
	return 0, false
}

func unq(desc string) string {
	i := strings.Index(desc, `"`)
	j := strings.LastIndex(desc, `"`)
	if i < 0 || j <= i {
		return ""
	}
	s := desc[i+1 : j]
	s = strings.ReplaceAll(s, `\\`, `\`)
	return s
}

func genFilter(g *Gen) string {
	lv := []string{"a", "b", "", "+", "#"}
	n := int(g.Range(1, 3))
	var parts []string
	for i := 0; i < n; i++ {
		l := lv[g.Intn(4)]
		parts = append(parts, l)
	}
	if g.Bool(0.35) {
		parts[len(parts)-1] = "#"
	}
	f := strings.Join(parts, "/")
	if f == "" {
		f = "a"
	}
	return f
}

func genTopicName(g *Gen) string {
	lv := []string{"a", "b", ""}
	n := int(g.Range(1, 3))
	var parts []string
	for i := 0; i < n; i++ {
		parts = append(parts, lv[g.Intn(3)])
	}
	t := strings.Join(parts, "/")
	if t == "" {
		t = "b"
	}
	return t
}

func genC27(g *Gen, idx int) *Plan {
	p, cp := g.clBase("C27-dispatch")
	p.Cfg.SN.Rules = nil
	ops := []ClientOp{{Op: "dial"}, {Op: "connect"}}
	t := int64(300)
	var filters []string
	n := int(g.Range(2, 9))
	mid := uint16(500)
	failUnsub, failed := g.Bool(0.2), false
	for i := 0; i < n; i++ {
		gap := g.Range(150, 700)
		t += gap
		switch {
		case g.Bool(0.4) || len(filters) == 0:
			f := genFilter(g)
			filters = append(filters, f)
			ops = append(ops, ClientOp{GapMs: gap, Op: "subscribe", Topic: f, QoS: uint8(g.Intn(3))})
		case g.Bool(0.25):
			ops = append(ops, ClientOp{GapMs: gap, Op: "unsubscribe", Topic: filters[g.Intn(len(filters))]})
			if failUnsub && !failed {
				// the gateway ignores this UNSUBSCRIBE and all its retransmissions: Unsubscribe fails, the
				// subscription stays what it was
				failed = true
				t += int64(cp.RetryCount+1)*cp.RetryDelayMs + 100
			}
		default:
			ops = append(ops, ClientOp{GapMs: gap, Op: "ping"})
		}
		// deliveries between the API calls
		for k := 0; k < int(g.Range(0, 2)); k++ {
			name := genTopicName(g)
			at := t + g.Range(60, 140)
			q := uint8(g.Intn(3))
			mid++
			pub := refsn.Pkt{Type: refsn.PUBLISH, QoS: q, MsgID: mid, Data: serialPayload("d", int(mid), 0)}
			if q == 0 {
				pub.MsgID = 0
			}
			if len(name) == 2 {
				pub.TIT, pub.TopicID = refsn.TITShort, refsn.ShortID(name)
			} else {
				// symbolic: the scripted gateway resolves the name (REGISTER first when it is new)
				pub.TIT, pub.TopicName = refsn.TITNormal, name
			}
			p.SGW.Ops = append(p.SGW.Ops, PeerOp{AtMs: at, Pkt: pub})
			if q == 2 {
				p.SGW.Ops = append(p.SGW.Ops, PeerOp{AtMs: at + 25, Pkt: refsn.Pkt{Type: refsn.PUBREL, MsgID: mid}})
			}
		}
	}
	ops = append(ops, ClientOp{GapMs: 400, Op: "disconnect"})
	cp.Ops = ops
	p.SGW.Rules = []SGWRule{{On: "PUBREC", Act: "ignore"}}
	if failed {
		p.Family = "C27-dispatch-failed-unsubscribe"
		p.SGW.Rules = append(p.SGW.Rules, SGWRule{On: "UNSUBSCRIBE", Count: int(cp.RetryCount) + 1, Act: "ignore"})
	}
	p.SGW.FirstTopicID = 300
	p.Cfg.SN.MaxLatUs = 4000
	p.Cfg.HorizonMs = t + 3000
	return p
}

// ---------------------------------------------------------------------------------------------
// C28: client API calls always return and the client shuts down

func oracleC28(v *View, vd *Verdict) {
	endT := v.R.SimNs
	for ci := range v.R.Plan.Clients {
		cp := &v.R.Plan.Clients[ci]
		// when did the client stop: Close returned nil, Disconnect returned nil after really sending
		// DISCONNECT, or the gateway sent a DISCONNECT that is not the reply to a sleep request
		stopped := false
		var stopT int64
		tx := clientTx(v, cp.Name)
		mark := func(t int64) {
			if !stopped || t < stopT {
				stopped, stopT = true, t
			}
		}
		calls := apiCalls(v)
		for _, a := range calls {
			if a.client != cp.Name || !a.returned || a.err != "nil" {
				continue
			}
			if a.op == "close" {
				mark(a.retT)
			}
			if a.op == "disconnect" {
				for _, t := range tx {
					if t.Idx > a.invIdx && t.Idx < a.retIdx && t.SNErr == nil && t.SN.Type == refsn.DISCONNECT {
						mark(a.retT)
					}
				}
			}
		}
		for _, e := range clientRx(v, cp.Name) {
			if e.SNErr != nil || e.SN.Type != refsn.DISCONNECT {
				continue
			}
			sleepAck := false
			for i := len(tx) - 1; i >= 0; i-- {
				if tx[i].Idx < e.Idx && tx[i].SNErr == nil && tx[i].SN.Type == refsn.DISCONNECT {
					sleepAck = tx[i].SN.HasDur && tx[i].SN.Duration > 0
					break
				}
			}
			if !sleepAck {
				mark(e.T)
			}
		}
		for _, a := range calls {
			if a.client != cp.Name {
				continue
			}
			vd.Trigger = true
			bound := apiBound(v.R.Plan, cp, a) + v.R.StalledNs
			step := gwBehaviour(v.R.Plan)
			from := a.invT
			if a.op == "wait" {
				// Wait blocks until the client terminates: it is only owed once the client has stopped
				if !stopped {
					continue
				}
				if stopT > from {
					from = stopT
				}
			}
			switch {
			case !a.returned:
				if endT-int64(6e9)-from > bound {
					vd.Add("C28", fmt.Sprintf("C28/api-hang/%s/%s", a.op, step), "client %s: %s invoked at %d never returned (bound %d ms; simulation ran until %d)", cp.Name, a.desc, a.invT, bound/nsMs, endT)
				}
			case a.retT-from > bound:
				vd.Add("C28", fmt.Sprintf("C28/api-late/%s/%s", a.op, step), "client %s: %s took %d ms, bound %d ms", cp.Name, a.desc, (a.retT-from)/nsMs, bound/nsMs)
			}
		}
		if stopped && endT-stopT > int64(8e9) {
			var left []string
			for _, f := range v.R.Leaked {
				if strings.Contains(f, "bisquitt/client.") && !strings.Contains(f, "Wait") {
					left = append(left, shortFn(f))
				}
			}
			sort.Strings(left) // (the runtime lists goroutines in no particular order)
			if len(left) > 0 {
				vd.Add("C28", "C28/goroutines-survive-shutdown/"+left[0], "client %s stopped at %d but %d client goroutines are alive at %d: %v", cp.Name, stopT, len(left), endT, left)
			}
		}
	}
}

func gwBehaviour(p *Plan) string {
	if p.SGW == nil {
		return "real-gateway"
	}
	var l []string
	if p.SGW.SilentAtMs > 0 {
		l = append(l, "silent")
	}
	for _, r := range p.SGW.Rules {
		if r.Act == "ignore" {
			l = append(l, "ignores-"+r.On)
		}
	}
	if len(p.SGW.Ops) > 0 {
		seen := map[string]bool{}
		for _, o := range p.SGW.Ops {
			n := "unsolicited-" + o.Pkt.Name()
			if !seen[n] && len(seen) < 2 {
				l = append(l, n)
			}
			seen[n] = true
		}
	}
	if len(l) == 0 {
		return "answering"
	}
	if len(l) > 3 {
		l = l[:3]
	}
	return strings.Join(l, "+")
}

var apiMenu = []string{"register", "subscribe", "unsubscribe", "publish0", "publish1", "publish2", "ping", "sleep", "disconnect", "close"}

func genC28(g *Gen, idx int) *Plan {
	if idx%12 == 11 {
		return alignedDisconnect(g, "C28-aligned-disconnect")
	}
	p, cp := g.clBase("C28-api")
	if g.Bool(0.5) {
		cp.KeepAliveMs = g.Range(1, 8) * 1000
	}
	ops := []ClientOp{{Op: "dial"}, {Op: "connect"}}
	// the call under test
	call := apiMenu[idx%len(apiMenu)]
	pre := int(g.Range(0, 2))
	for i := 0; i < pre; i++ {
		ops = append(ops, ClientOp{GapMs: g.Range(20, 400), Op: "register", Topic: namePool[i]})
	}
	mk := func(c string) ClientOp {
		gap := g.Range(20, 900)
		switch c {
		case "register":
			return ClientOp{GapMs: gap, Op: "register", Topic: "t/z"}
		case "subscribe":
			return ClientOp{GapMs: gap, Op: "subscribe", Topic: "t/#", QoS: 1}
		case "unsubscribe":
			return ClientOp{GapMs: gap, Op: "unsubscribe", Topic: "t/#"}
		case "publish0":
			return ClientOp{GapMs: gap, Op: "publish", Topic: "ab", QoS: 0, Payload: []byte("x")}
		case "publish1":
			return ClientOp{GapMs: gap, Op: "publish", Topic: "ab", QoS: 1, Payload: []byte("x")}
		case "publish2":
			return ClientOp{GapMs: gap, Op: "publish", Topic: "ab", QoS: 2, Payload: []byte("x")}
		case "ping":
			return ClientOp{GapMs: gap, Op: "ping"}
		case "sleep":
			return ClientOp{GapMs: gap, Op: "sleep", DurMs: g.Range(1, 5) * 1000}
		case "disconnect":
			return ClientOp{GapMs: gap, Op: "disconnect"}
		default:
			return ClientOp{GapMs: gap, Op: "close"}
		}
	}
	ops = append(ops, mk(call))
	if call != "close" && call != "disconnect" {
		if g.Bool(0.5) {
			ops = append(ops, mk(apiMenu[g.Intn(len(apiMenu))]))
		}
		ops = append(ops, ClientOp{GapMs: g.Range(20, 500), Op: "close"})
	}
	ops = append(ops, ClientOp{Op: "wait"})
	cp.Ops = ops
	// gateway behaviour
	classOf := map[string]string{"register": "REGISTER", "subscribe": "SUBSCRIBE", "unsubscribe": "UNSUBSCRIBE", "publish1": "PUBLISH", "publish2": "PUBLISH", "ping": "PINGREQ", "sleep": "DISCONNECT", "disconnect": "DISCONNECT", "close": "DISCONNECT", "publish0": "PUBLISH"}
	switch g.Intn(11) {
	case 10: // the client's own write fails (ECONNREFUSED after an ICMP error): for the call under test, or for every packet from some point
		if g.Bool(0.5) {
			p.Cfg.SN.Rules = append(p.Cfg.SN.Rules, Rule{Dir: "c2g", Class: classOf[call], Skip: g.Intn(2), Count: int(g.Range(1, 3)), Act: "werr"})
		} else {
			p.Cfg.SN.Rules = append(p.Cfg.SN.Rules, Rule{Dir: "c2g", Skip: int(g.Range(1, 6)), Count: 1000, Act: "werr"})
		}
	case 9: // a REGISTER from the gateway that the client must refuse (a name it knows, under another id), then more work
		reg := []ClientOp{{Op: "dial"}, {Op: "connect"}, {GapMs: g.Range(20, 300), Op: "register", Topic: namePool[0]}, {GapMs: g.Range(20, 300), Op: "register", Topic: namePool[1]}}
		rest := []ClientOp{mk(call)}
		rest[0].GapMs = g.Range(1800, 2500)
		rest = append(rest, ClientOp{GapMs: g.Range(20, 400), Op: "publish", Topic: namePool[1], QoS: uint8(g.Intn(3)), Payload: []byte("after")})
		if call != "close" && call != "disconnect" {
			rest = append(rest, ClientOp{GapMs: g.Range(20, 500), Op: "close"})
		}
		cp.Ops = append(append(reg, rest...), ClientOp{Op: "wait"})
		p.SGW.Ops = append(p.SGW.Ops, PeerOp{AtMs: g.Range(1200, 1500), Pkt: refsn.Pkt{Type: refsn.REGISTER, MsgID: 77, TopicID: 0x0777, TopicName: namePool[g.Intn(2)]}})
		if g.Bool(0.5) {
			p.SGW.Ops = append(p.SGW.Ops, PeerOp{AtMs: g.Range(1510, 1700), Pkt: refsn.Pkt{Type: refsn.REGISTER, MsgID: 78, TopicID: 0x0778, TopicName: "brand/new"}})
		}
	case 6: // answers a retransmittable step with the *previous* acknowledgement again, every time
		switch g.Intn(3) {
		case 0: // PUBREC again for every PUBREL (no PUBCOMP ever)
			p.SGW.Rules = append(p.SGW.Rules, SGWRule{On: "PUBREL", Act: "reply", CopyID: true, Reply: []refsn.Pkt{{Type: refsn.PUBREC}}})
		case 1: // every acknowledgement twice
			for _, cl := range []string{"PUBLISH", "REGISTER", "SUBSCRIBE", "PINGREQ"} {
				rep := map[string]refsn.Pkt{"PUBLISH": {Type: refsn.PUBACK}, "REGISTER": {Type: refsn.REGACK, TopicID: 9}, "SUBSCRIBE": {Type: refsn.SUBACK}, "PINGREQ": {Type: refsn.PINGRESP}}[cl]
				p.SGW.Rules = append(p.SGW.Rules, SGWRule{On: cl, Act: "also", CopyID: true, Reply: []refsn.Pkt{rep}})
			}
		case 2: // CONNACK again and again
			for k := 0; k < 5; k++ {
				p.SGW.Ops = append(p.SGW.Ops, PeerOp{AtMs: g.Range(50, 3000), Pkt: refsn.Pkt{Type: refsn.CONNACK}})
			}
		}
	case 7: // DISCONNECT from the gateway again and again (also while the client sleeps), far beyond every bound
		every := g.Range(300, 2500)
		for at := g.Range(100, 1500); at < 150000; at += every {
			p.SGW.Ops = append(p.SGW.Ops, PeerOp{AtMs: at, Pkt: refsn.Pkt{Type: refsn.DISCONNECT}})
		}
	case 8: // an API call in the wrong state first (Sleep before Connect), later a DISCONNECT from the gateway
		cp.Ops = append([]ClientOp{{Op: "dial"}, {Op: "sleep", DurMs: 1000}}, cp.Ops[1:]...)
		p.SGW.Ops = append(p.SGW.Ops, PeerOp{AtMs: g.Range(500, 2500), Pkt: refsn.Pkt{Type: refsn.DISCONNECT}})
	case 0: // answers everything
	case 1: // silent for the class under test
		p.SGW.Rules = append(p.SGW.Rules, SGWRule{On: classOf[call], Act: "ignore"})
	case 2: // silent for a later step of the exchange
		p.SGW.Rules = append(p.SGW.Rules, SGWRule{On: []string{"PUBREL", "PINGREQ", "DISCONNECT", "CONNECT"}[g.Intn(4)], Act: "ignore"})
	case 3: // silent forever from some instant
		p.SGW.SilentAtMs = g.Range(1, 1500)
	case 4: // unsolicited packets of every type
		for k := 0; k < int(g.Range(1, 3)); k++ {
			t := refsn.AllTypes[g.Intn(len(refsn.AllTypes))]
			pk := refsn.Pkt{Type: t, MsgID: uint16(g.Range(0, 6)), TopicID: uint16(g.Range(0, 4)), TopicName: "u/t", Data: []byte("u"), QoS: uint8(g.Intn(3)), AuthMethod: "PLAIN", Will: true}
			p.SGW.Ops = append(p.SGW.Ops, PeerOp{AtMs: g.Range(100, 1500), Pkt: pk})
		}
	case 5: // DISCONNECT from the gateway
		p.SGW.Ops = append(p.SGW.Ops, PeerOp{AtMs: g.Range(100, 1500), Pkt: refsn.Pkt{Type: refsn.DISCONNECT}})
	}
	n := int64(cp.RetryCount) + 1
	p.Cfg.HorizonMs = 3000 + n*cp.ConnectTimeoutMs + 4*2*n*cp.RetryDelayMs + 5000 + 61000 + 10000
	if len(p.SGW.Ops) > 20 {
		p.Cfg.HorizonMs += 90000
	}
	return p
}

// ---------------------------------------------------------------------------------------------
// C33: client keep-alive pings only while active

// Sleep() refused on the spot (wrong state): an error although nothing was sent for the call
func sleepRefusedC33(v *View, client string, a *apiCall) bool {
	if a.op != "sleep" || !a.returned || a.err == "nil" {
		return false
	}
	for _, e := range clientTx(v, client) {
		if e.Idx > a.invIdx && e.Idx < a.retIdx {
			return false
		}
	}
	return true
}

func oracleC33(v *View, vd *Verdict) {
	for ci := range v.R.Plan.Clients {
		cp := &v.R.Plan.Clients[ci]
		if cp.KeepAliveMs == 0 {
			continue
		}
		ka := cp.KeepAliveMs * nsMs
		// merge rx/tx in execution order
		type ev struct {
			e  Ev
			tx bool
			st string // the client logged a change of its own state
		}
		var evs []ev
		for _, e := range clientTx(v, cp.Name) {
			evs = append(evs, ev{e, true, ""})
		}
		for _, e := range clientRx(v, cp.Name) {
			evs = append(evs, ev{e, false, ""})
		}
		for i, rec := range v.R.Hist {
			if rec.Ch == "state:"+cp.Name && rec.Kind == "state" {
				evs = append(evs, ev{Ev{Idx: i, T: rec.T}, false, rec.S})
			}
		}
		sortEvs := func() {
			for i := 1; i < len(evs); i++ {
				for j := i; j > 0 && evs[j].e.Idx < evs[j-1].e.Idx; j-- {
					evs[j], evs[j-1] = evs[j-1], evs[j]
				}
			}
		}
		sortEvs()
		// the oracle reads the client's own state from its debug log ("State changed to %q."): a client
		// that was told CONNACK(accepted) and never logged a change means the line is gone, not that
		// the client pings while disconnected
		{
			nState, accepted := 0, false
			for _, x := range evs {
				if x.st != "" {
					nState++
				} else if !x.tx && x.e.SNErr == nil && x.e.SN.Type == refsn.CONNACK && x.e.SN.RC == 0 {
					accepted = true
				}
			}
			if accepted && nState == 0 {
				vd.Harness = "C33 oracle: client " + cp.Name + " received CONNACK(accepted) but never logged \"State changed to ...\" (client.stateChanged): the oracle reads the client's state from that debug line"
				return
			}
		}
		state := "disconnected"
		var activeSince, lastPing int64 = -1, -1
		lossy := v.R.Plan.SGW != nil && (len(v.R.Plan.SGW.Rules) > 0 || v.R.Plan.SGW.SilentAtMs > 0)
		for _, r := range v.R.Plan.Cfg.SN.Rules {
			if r.Act != "delay" {
				lossy = true // (a datagram that is merely late, by less than a retry delay, loses nothing)
			} else if r.DelayMs*nsMs+2*(v.R.Plan.Cfg.SN.MaxLatUs+1000)*1000+v.R.StalledNs >= cp.RetryDelayMs*nsMs {
				// late by a retry delay or more once the round trip and this run's slow-node stalls are
				// added: a reply that arrives in time but is handled too late is a lost reply
				lossy = true
			}
		}
		// once an API call has failed the client's goroutine group is cancelled: nothing more is owed
		deadIdx := int(^uint(0) >> 1)
		for _, a := range apiCalls(v) {
			if a.client == cp.Name && a.returned && a.err != "nil" && !sleepRefusedC33(v, cp.Name, a) && a.retIdx < deadIdx {
				deadIdx = a.retIdx
			}
		}
		for _, x := range evs {
			if x.e.SNErr != nil {
				continue
			}
			if x.e.Idx > deadIdx {
				state = "dead"
				break
			}
			if x.st != "" {
				// the client's own notion of its state is what the property speaks about: the
				// datagrams that cause a change are processed a little later than they are read
				switch x.st {
				case "active":
					if state != "active" {
						state, activeSince, lastPing = "active", x.e.T, -1
					}
				case "asleep", "disconnected":
					state = x.st
				case "awake":
					state = "awake"
				}
				continue
			}
			p := x.e.SN
			if x.tx {
				switch p.Type {
				case refsn.PINGREQ:
					if len(p.Data) == 0 { // keep-alive ping (the wake-up ping carries the client id)
						vd.Trigger = true
						switch state {
						case "asleep", "disconnected":
							vd.Add("C33", "C33/keepalive-ping-while-"+state, "client %s: keep-alive PINGREQ sent at %d while %s", cp.Name, x.e.T, state)
						case "active":
							ref := lastPing
							if ref < activeSince {
								ref = activeSince
							}
							// with planned losses the client may legitimately have given up (retry budget
							// exhausted => its goroutine group is cancelled): then no ping is owed any more
							gaveUp := lossy && deadIdx != int(^uint(0)>>1)
							if ref >= 0 && x.e.T-ref > ka+cp.RetryDelayMs*nsMs+20*nsMs+v.R.StalledNs && !gaveUp {
								vd.Add("C33", "C33/keepalive-gap", "client %s: %d ms without a keep-alive PINGREQ while active (KeepAlive %d ms)", cp.Name, (x.e.T-ref)/nsMs, cp.KeepAliveMs)
							}
							lastPing = x.e.T
						}
					}
				}
			}
		}
		// the tail: active until the end without pings
		if state == "active" && !lossy {
			ref := lastPing
			if ref < activeSince {
				ref = activeSince
			}
			if v.R.SimNs-int64(6e9)-ref > ka+cp.RetryDelayMs*nsMs+20*nsMs+v.R.StalledNs {
				vd.Add("C33", "C33/keepalive-gap/tail", "client %s: active since %d, last keep-alive PINGREQ at %d, none until %d (KeepAlive %d ms)", cp.Name, activeSince, lastPing, v.R.SimNs, cp.KeepAliveMs)
			}
		}
		// ... nor cuts it short: a Sleep(d) that returned nil slept for d and woke up with PINGREQ(client id)
		if !lossy {
			for _, a := range apiCalls(v) {
				if a.client != cp.Name || a.op != "sleep" || !a.returned || a.err != "nil" {
					continue
				}
				var d int64
				for _, op := range cp.Ops {
					if op.Op == "sleep" {
						d = op.DurMs * nsMs // (all Sleep calls of a plan are judged by the shortest duration)
						break
					}
				}
				for _, op := range cp.Ops {
					if op.Op == "sleep" && op.DurMs*nsMs < d {
						d = op.DurMs * nsMs
					}
				}
				woke := false
				for _, e := range clientTx(v, cp.Name) {
					if e.Idx > a.invIdx && e.Idx < a.retIdx && e.SNErr == nil && e.SN.Type == refsn.PINGREQ && len(e.SN.Data) > 0 {
						woke = true
					}
				}
				if a.retT-a.invT < d-20*nsMs || !woke {
					vd.Add("C33", "C33/sleep-cut-short", "client %s: %s returned nil after %d ms (wake-up PINGREQ sent: %v) with keep-alive %d ms", cp.Name, a.desc, (a.retT-a.invT)/nsMs, woke, cp.KeepAliveMs)
					break
				}
			}
		}
		// a keep-alive exchange never makes a concurrent API call fail (answering gateway)
		if !lossy {
			for _, a := range apiCalls(v) {
				if a.client != cp.Name || a.op == "wait" {
					continue
				}
				bound := apiBound(v.R.Plan, cp, a) + v.R.StalledNs
				if a.returned && a.err != "nil" && !sleepRefusedC33(v, cp.Name, a) {
					// later failures are consequences of the first one (the client's goroutine group is cancelled)
					vd.Add("C33", "C33/api-call-failed/first="+a.op+"/"+errClassTX(a.err), "client %s: %s returned %q although the gateway answered everything (keep-alive %d ms)", cp.Name, a.desc, a.err, cp.KeepAliveMs)
					break
				}
				if !a.returned && v.R.SimNs-int64(6e9)-a.invT > bound {
					vd.Add("C33", "C33/api-call-hangs/"+a.op, "client %s: %s never returned although the gateway answered everything (keep-alive %d ms)", cp.Name, a.desc, cp.KeepAliveMs)
				}
			}
		}
	}
}

// alignedDisconnect: the keep-alive ping of the first tick stays unanswered and the client disconnects
// just when the ping's retry timer comes round, with a slow client around that instant: the timer
// callback and Disconnect (or Close) meet inside their critical sections.
func alignedDisconnect(g *Gen, family string) *Plan {
	p, cp := g.clBase(family)
	cp.RetryDelayMs = g.Range(300, 1500)
	cp.RetryCount = uint(g.Range(2, 4))
	cp.KeepAliveMs = g.Range(2, 4) * 1000
	p.Cfg.RetryDelayMs = cp.RetryDelayMs
	at := cp.KeepAliveMs + cp.RetryDelayMs - []int64{20, 8, 3, 2, 1, 1, 0, 0}[g.Intn(8)]
	ops := []ClientOp{{Op: "dial"}, {Op: "connect"}}
	if g.Bool(0.3) {
		// a user's Ping in a goroutine of its own instead of the keep-alive ping
		cp.KeepAliveMs = 0
		ops = append(ops, ClientOp{GapMs: at - cp.RetryDelayMs, Op: "ping", Async: true}, ClientOp{GapMs: cp.RetryDelayMs - []int64{8, 3, 2, 1, 1, 0}[g.Intn(6)], Op: []string{"disconnect", "close"}[g.Intn(2)]})
	} else {
		ops = append(ops, ClientOp{GapMs: at, Op: []string{"disconnect", "close"}[g.Intn(2)]})
	}
	ops = append(ops, ClientOp{Op: "wait"})
	cp.Ops = ops
	p.Cfg.SN.Rules = append(p.Cfg.SN.Rules, Rule{Dir: "g2c", Class: "PINGRESP", Count: 1000, Act: "drop"})
	p.Cfg.Sched = simrt.SchedCfg{Density: 0.3 + g.Float()*0.7, Overlap: true, StallProb: 0.25, MaxStall: time.Duration(g.Range(300, 5000)) * time.Microsecond, MaxStalls: 60,
		Sticky: []float64{0, 0.8, 0.95}[g.Intn(3)], StallAfter: time.Duration(at-100) * time.Millisecond}
	p.Cfg.SN.MaxLatUs = g.Range(800, 4000)
	n := int64(cp.RetryCount) + 1
	p.Cfg.HorizonMs = at + 2*n*cp.RetryDelayMs + cp.ConnectTimeoutMs + 20000
	return p
}

func genC33(g *Gen, idx int) *Plan {
	if idx%10 == 9 {
		return alignedDisconnect(g, "C33-aligned-disconnect")
	}
	p, cp := g.clBase("C33-keepalive")
	p.Cfg.Sched = g.Sched("client/net.go", "client/client.go", "client/ping_transaction.go", "client/sleep_transaction.go")
	cp.RetryDelayMs = g.Range(300, 1500)
	cp.KeepAliveMs = g.Range(2, 6) * 1000
	p.Cfg.RetryDelayMs = cp.RetryDelayMs
	ka := cp.KeepAliveMs
	ops := []ClientOp{{Op: "dial"}, {Op: "connect"}}
	// API calls placed at ticks +- delta
	n := int(g.Range(1, 4))
	used := int64(0)
	losePing := false
	alignedAt := int64(0) // when the first Sleep aligned with a ping's retry timer is called (ms after connect)
	for i := 0; i < n; i++ {
		k := g.Range(1, 3)
		delta := []int64{-20, -2, -1, 0, 1, 2, 20, 300}[g.Intn(8)]
		gap := k*ka + delta - (used % ka)
		if gap < 5 {
			gap += ka
		}
		used += gap
		switch g.Intn(5) {
		case 0:
			d := g.Range(1, 4) * 1000
			if g.Bool(0.5) {
				// the keep-alive ping of this tick stays unanswered, and the client falls asleep just when
				// the ping's retry timer comes round (one RetryDelay after the tick, less a round trip)
				extra := cp.RetryDelayMs - []int64{40, 20, 8, 3, 2, 1, 1, 0}[g.Intn(8)]
				gap += extra
				used += extra
				losePing = true
				if alignedAt == 0 {
					alignedAt = used
				}
			}
			ops = append(ops, ClientOp{GapMs: gap, Op: "sleep", DurMs: d})
			ops = append(ops, ClientOp{GapMs: 50, Op: "connect"})
			used += d + 50
		case 1:
			ops = append(ops, ClientOp{GapMs: gap, Op: "publish", Topic: "ab", QoS: uint8(g.Intn(3)), Payload: []byte("k")})
		case 2:
			ops = append(ops, ClientOp{GapMs: gap, Op: "ping"})
		case 3:
			ops = append(ops, ClientOp{GapMs: gap, Op: "register", Topic: "t/a"})
		case 4:
			ops = append(ops, ClientOp{GapMs: gap, Op: "subscribe", Topic: "t/#", QoS: 1})
		}
	}
	gap := g.Range(1, 2)*ka + []int64{-2, 0, 1, 50}[g.Intn(4)] - (used % ka)
	if gap < 5 {
		gap += ka
	}
	ops = append(ops, ClientOp{GapMs: gap, Op: "disconnect"}, ClientOp{Op: "wait"})
	used += gap
	cp.Ops = ops
	if g.Bool(0.3) || losePing {
		// lost PINGRESP: retransmissions
		p.Cfg.SN.Rules = append(p.Cfg.SN.Rules, Rule{Dir: "g2c", Class: "PINGRESP", Skip: g.Intn(2), Count: int(g.Range(1, 2)), Act: "drop"})
	} else if g.Bool(0.35) {
		// a slow path for PINGRESPs only: the answer to a keep-alive ping arrives after the answer to the
		// Sleep/Disconnect/Publish that was called right after the tick
		p.Family += "-late-pingresp"
		p.Cfg.SN.FIFO = false
		p.Cfg.SN.Rules = append(p.Cfg.SN.Rules, Rule{Dir: "g2c", Class: "PINGRESP", Count: 1000, Act: "delay", DelayMs: g.Range(30, cp.RetryDelayMs*8/10)})
	}
	if alignedAt > 0 && g.Bool(0.6) {
		// a slow client around that instant: the retry timer fires while the receive loop (or the caller of
		// Sleep) is between two statements — the whole stall budget goes to these few hundred milliseconds
		p.Cfg.Sched = simrt.SchedCfg{Density: 0.3 + g.Float()*0.7, Overlap: true, StallProb: 0.25, MaxStall: time.Duration(g.Range(300, 5000)) * time.Microsecond, MaxStalls: 60,
			Sticky: []float64{0, 0.8, 0.95}[g.Intn(3)], StallAfter: time.Duration(alignedAt-100) * time.Millisecond}
		// (round trips of the same order as the stalls and the alignment offsets)
		p.Cfg.SN.MaxLatUs = g.Range(800, 4000)
	}
	p.Cfg.HorizonMs = used + 8000 + 3*ka
	return p
}

func init() {
	Register(&Check{ID: "C17", Level: "fault_enumeration",
		Rule:   "real client library against the scripted gateway; per packet class (PUBLISH, PUBREL, SUBSCRIBE from the client; PUBACK, PUBREC, PUBCOMP, SUBACK to it) a planned rule drops the first j (1..RetryCount+1, i.e. within and beyond the budget), duplicates or delays occurrences; gateway-initiated QoS 2 with repeated PUBREL after completion; in 12 % of the runs the gateway never acknowledges and sends DISCONNECT while the call waits (the call must not report success); every 12th plan has subscription handlers that publish QoS 1/2 themselves and wait, and a burst of 2-12 messages for them, lossless (acknowledged = the acknowledgement reached the client's socket in time); an acknowledgement read after a failed write of the client's own is don't-care; non-trivial = a retransmission, a PUBREL received or an acknowledged/unacknowledged Publish judged",
		Gen:    genC17, Oracle: oracleC17, Quick: 3000, Thorough: 240000})
	Register(&Check{ID: "C27", Level: "exploration",
		Rule:   "filters and topic names over {a,b,'',+,#} up to 3 levels (empty levels, trailing '/', '#' at parent level), subscribe/unsubscribe histories of 2-8 calls, the scripted gateway delivers PUBLISHes (QoS 0/1 on receipt, QoS 2 on PUBREL) between the calls; judged with refmqtt.Match; deliveries that race an in-flight Subscribe/Unsubscribe are don't-care; in a fifth of the runs one Unsubscribe fails (the gateway ignores it and its retransmissions) and the subscription must stay what it was; non-trivial = at least one delivery judged",
		Gen:    genC27, Oracle: oracleC27, Quick: 2400, Thorough: 240000})
	Register(&Check{ID: "C28", Level: "fault_enumeration",
		Rule:   "for each of 10 API calls (register, subscribe, unsubscribe, publish QoS 0/1/2, ping, sleep, disconnect, close) x 11 behaviours of the gateway and the network (answering, silent for the call's packet class, silent for a later step, silent forever from an instant, unsolicited packets of random types, DISCONNECT from the gateway, the previous acknowledgement repeated for every retransmittable step / every acknowledgement twice / CONNACK again and again, DISCONNECT repeated for minutes incl. while the client sleeps, an API call in a wrong state (Sleep before Connect) followed by a DISCONNECT from the gateway, a REGISTER the client must refuse followed by more work, the client's own writes failing with an error), KeepAlive on/off; every 12th plan: Disconnect/Close called one RetryDelay (less 0-20 ms) after an unanswered keep-alive or user PINGREQ, slow client around that instant; bound per call from ConnectTimeout/RetryDelay/RetryCount/sleep duration + 50 ms; goroutine census of client frames after Close/DISCONNECT; non-trivial = every run",
		Gen:    genC28, Oracle: oracleC28, Quick: 2400, Thorough: 200000})
	Register(&Check{ID: "C33", Level: "exploration",
		Rule:   "KeepAlive 2-6 s, RetryDelay < KeepAlive; Sleep/Publish/Ping/Register/Subscribe/Disconnect placed at k*KeepAlive +- {0,1,2,20,300} ms, Sleep (and, every 10th plan, Disconnect/Close) also one RetryDelay (less a round trip) after a tick whose ping stays unanswered, yield focus on keepaliveLoop/Ping/sleep transaction, optionally the first PINGRESPs lost or every PINGRESP late by 30 ms..0.8 RetryDelay (it arrives after the answer to the call made right after the tick); the client's own state changes are recorded from its log; keep-alive PINGREQs (those without client id) must not be sent after the client has logged asleep/disconnected, gaps while active <= KeepAlive + RetryDelay + 20 ms, no API call may fail or hang against an answering gateway, a Sleep(d) that returns nil lasted d and sent the wake-up PINGREQ; non-trivial = a keep-alive PINGREQ was sent",
		Gen:    genC33, Oracle: oracleC33, Quick: 8000, Thorough: 240000})
}

var _ = simrt.MaxJitter
