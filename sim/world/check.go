package world

import (
	"crypto/sha256"
	"encoding/json"
	"fmt"
	"os"
	"runtime"
	"runtime/debug"
	"sort"
	"strings"
	"testing"
	"time"

	"verifsim/simrt"
)

// Violation of a property, identified by a seed-independent signature.
type Violation struct {
	Prop   string `json:"prop"`
	Sig    string `json:"sig"`
	Detail string `json:"detail"`
}

// Verdict of the oracles on one run.
type Verdict struct {
	Violations []Violation `json:"violations,omitempty"`
	Trigger    bool        `json:"trigger"` // the property's trigger condition occurred (non-trivial run)
	Tags       []string    `json:"tags,omitempty"`
	Unknown    int         `json:"unknown,omitempty"` // inconclusive sub-checks (never reported)
	// Harness: something the harness itself depends on (not the property) is missing in the tree under
	// test, e.g. a debug log line an oracle reads: the check stops with exit status 2, never a VIOLATION
	Harness string `json:"harness,omitempty"`
}

func (v *Verdict) Add(prop, sig, detail string, a ...any) {
	v.Violations = append(v.Violations, Violation{Prop: prop, Sig: sig, Detail: fmt.Sprintf(detail, a...)})
}
func (v *Verdict) Tag(t string) { v.Tags = append(v.Tags, t) }

// Gen draws everything from one stream.
type Gen struct {
	*simrt.Rng
	Tier        string
	filterNames bool // Predef may draw names that are topic filters (see PredefWithFilters)
}

func (g *Gen) Pick(n int) int { return g.Intn(n) }
func (g *Gen) Range(lo, hi int64) int64 {
	if hi <= lo {
		return lo
	}
	return lo + int64(g.U64()%uint64(hi-lo+1))
}
func (g *Gen) Str(alpha string, lo, hi int) string {
	n := int(g.Range(int64(lo), int64(hi)))
	b := make([]byte, n)
	for i := range b {
		b[i] = alpha[g.Intn(len(alpha))]
	}
	return string(b)
}
func (g *Gen) Bytes(lo, hi int) []byte {
	n := int(g.Range(int64(lo), int64(hi)))
	b := make([]byte, n)
	for i := range b {
		b[i] = byte(g.U64())
	}
	return b
}

// Check is one property's machinery: a plan generator and an oracle.
type Check struct {
	ID      string
	Level   string // exploration | fault_enumeration
	Rule    string // how cases are generated and what makes one non-trivial
	Gen     func(g *Gen, idx int) *Plan
	// Enum, if set, yields the idx-th plan of a finite enumerated family (nil when exhausted).
	Enum    func(tier string, idx int) *Plan
	Oracle  func(v *View, vd *Verdict)
	// Post, if set, may execute further plans derived from the run (differential oracles).
	Post    func(t *testing.T, r *Result, vd *Verdict)
	CLI     bool // needs the per-tool binaries (cmd/* with an injected test file)
	Quick   int // runs per quick check
	Thorough int
	Assumptions []string
}

var Checks = map[string]*Check{}

func Register(c *Check) { Checks[c.ID] = c }

// RunOut is what a worker prints per run.
type RunOut struct {
	Seed     uint64         `json:"seed"`
	Idx      int            `json:"idx"`
	Family   string         `json:"family"`
	Verdict  Verdict        `json:"verdict"`
	Incidental []Violation  `json:"incidental,omitempty"` // other properties' violations seen in this run
	Canon    string         `json:"canon"`
	Steps    int64          `json:"steps"`
	Events   int64          `json:"events"`
	SimNs    int64          `json:"sim_ns"`
	Faults   map[string]int `json:"faults,omitempty"`
	Probes   map[string]int `json:"probes,omitempty"`
	SitesHit int            `json:"sites_hit"`
	Switches int            `json:"switches"`
	HistLen  int            `json:"hist_len"`
	WallUs   int64          `json:"wall_us"`
	Bubble   string         `json:"bubble,omitempty"`
	StepCap  bool           `json:"step_cap,omitempty"`
	Hist     []string       `json:"hist,omitempty"` // only with VERIF_HIST=1 (debugging)
}

// Job is a worker's assignment.
type Job struct {
	Mode     string   `json:"mode"` // run | replay | shrink | dump
	Property string   `json:"property"`
	Tier     string   `json:"tier"`
	BaseSeed uint64   `json:"base_seed"`
	Idx      []int    `json:"idx,omitempty"`  // run indices
	Plan     *Plan    `json:"plan,omitempty"` // replay / shrink
	Sig      string   `json:"sig,omitempty"`  // shrink target
	MaxExec  int      `json:"max_exec,omitempty"`
	Out      string   `json:"out,omitempty"`
}

// PlanFor derives the idx-th plan of a check deterministically from (base seed, idx).
func PlanFor(c *Check, tier string, base uint64, idx int) *Plan {
	var p *Plan
	if c.Enum != nil {
		p = c.Enum(tier, idx)
	}
	seed := simrt.NewRng(base ^ uint64(idx)*0x9E3779B97F4A7C15 ^ hashID(c.ID)).U64()
	if p == nil {
		if c.Gen == nil {
			return nil
		}
		g := &Gen{Rng: simrt.NewRng(seed), Tier: tier}
		p = c.Gen(g, idx)
	}
	if p == nil {
		return nil
	}
	p.Property = c.ID
	if p.Seed == 0 {
		p.Seed = seed
	}
	// every plan is executed in the form a replay file gives it back (one JSON round trip): what a
	// run does and what its replay does cannot differ by an encoding detail
	return clonePlan(p)
}

func hashID(s string) uint64 {
	h := uint64(1469598103934665603)
	for i := 0; i < len(s); i++ {
		h ^= uint64(s[i])
		h *= 1099511628211
	}
	return h
}

func canonHash(r *Result) string {
	h := sha256.New()
	for _, rec := range r.Canon {
		fmt.Fprintf(h, "%d|%s|%d|%s|%x|%s|%d\n", rec.T, rec.Ch, rec.N, rec.Kind, rec.B, rec.S, rec.I)
	}
	return fmt.Sprintf("%x", h.Sum(nil))[:16]
}

// Evaluate runs the check's oracle plus the cross-cutting invariants.
func Evaluate(c *Check, r *Result) (Verdict, []Violation, *View) {
	v := BuildView(r)
	var vd Verdict
	c.Oracle(v, &vd)
	var inc Verdict
	for _, id := range []string{"C23", "C24"} {
		if id != c.ID {
			if oc, ok := Checks[id]; ok {
				oc.Oracle(v, &inc)
			}
		}
	}
	// keep only violations of the check's own property in the verdict
	var own []Violation
	for _, x := range vd.Violations {
		if x.Prop == c.ID {
			own = append(own, x)
		} else {
			inc.Violations = append(inc.Violations, x)
		}
	}
	vd.Violations = dedupe(own)
	return vd, dedupe(inc.Violations), v
}

func dedupe(l []Violation) []Violation {
	seen := map[string]bool{}
	var out []Violation
	for _, x := range l {
		if !seen[x.Sig] {
			seen[x.Sig] = true
			out = append(out, x)
		}
	}
	sort.SliceStable(out, func(i, j int) bool { return out[i].Sig < out[j].Sig })
	return out
}

// RunOne executes and evaluates one plan.
func RunOne(t *testing.T, c *Check, p *Plan, idx int) (*RunOut, *Result) {
	t0 := time.Now()
	r := Execute(t, p)
	vd, inc, _ := Evaluate(c, r)
	if c.Post != nil {
		c.Post(t, r, &vd)
		vd.Violations = dedupe(vd.Violations)
	}
	o := &RunOut{Seed: p.Seed, Idx: idx, Family: p.Family, Verdict: vd, Incidental: inc, Canon: canonHash(r), Steps: r.Steps, Events: r.Events,
		SimNs: r.SimNs, Faults: r.Faults, Probes: r.Probes, SitesHit: r.SitesHit, Switches: r.Switches, HistLen: len(r.Hist),
		WallUs: time.Since(t0).Microseconds(), Bubble: r.BubbleErr, StepCap: r.StepCap}
	if os.Getenv("VERIF_HIST") == "1" {
		for _, rec := range r.Canon {
			o.Hist = append(o.Hist, rec.String())
		}
		o.Hist = append(o.Hist, "--- decision trace ---")
		o.Hist = append(o.Hist, r.Trace...)
	}
	return o, r
}

// WorkerMain is the body of the single test function of the engine binary.
func WorkerMain(t *testing.T) {
	path := os.Getenv("VERIF_JOB")
	if path == "" {
		t.Skip("no VERIF_JOB")
	}
	raw, err := os.ReadFile(path)
	if err != nil {
		t.Fatal(err)
	}
	var job Job
	if err := json.Unmarshal(raw, &job); err != nil {
		t.Fatal(err)
	}
	c := Checks[job.Property]
	if c == nil {
		t.Fatalf("unknown property %q", job.Property)
	}
	// GC-triggered preemption reorders goroutines that are runnable in the same instant: no GC inside runs.
	debug.SetGCPercent(-1)
	debug.SetMemoryLimit(6 << 30)
	emit := func(tag string, v any) {
		b, _ := json.Marshal(v)
		fmt.Printf("%s %s\n", tag, b)
	}
	switch job.Mode {
	case "run":
		for n, idx := range job.Idx {
			p := PlanFor(c, job.Tier, job.BaseSeed, idx)
			if p == nil {
				fmt.Printf("SKIP %d\n", idx)
				continue
			}
			if p.CLI != nil && (CLIRun == nil || CLITool != p.CLI.Tool) {
				fmt.Printf("SKIP %d\n", idx)
				continue
			}
			fmt.Printf("RUN %d\n", idx)
			o, _ := RunOne(t, c, p, idx)
			emit("END", o)
			if p.CLI != nil && n+1 < len(job.Idx) {
				// the tool's flag state lives in a package-level Application: one process per run
				fmt.Println("WORKER-YIELD")
				return
			}
			if n%8 == 7 {
				runtime.GC()
			}
		}
	case "replay", "dump":
		p := job.Plan
		if p == nil {
			p = PlanFor(c, job.Tier, job.BaseSeed, job.Idx[0])
		}
		fmt.Printf("RUN %d\n", 0)
		o, r := RunOne(t, c, p, 0)
		emit("END", o)
		if job.Out != "" {
			writeReplay(job.Out, c, p, o, r, job.Sig)
		}
	case "shrink":
		shrinkJob(t, c, &job, emit)
	}
	fmt.Println("WORKER-DONE")
}

// ReplayFile is the on-disk replay format.
type ReplayFile struct {
	Property string      `json:"property"`
	Sig      string      `json:"signature"`
	Detail   string      `json:"detail"`
	Canon    string      `json:"canon_sha256_16"`
	Plan     *Plan       `json:"plan"`
	Verdict  Verdict     `json:"verdict"`
	History  []string    `json:"history"`
	LogTail  []string    `json:"gateway_client_log_tail,omitempty"`
	Faults   map[string]int `json:"faults,omitempty"`
	Note     string      `json:"note,omitempty"`
}

func writeReplay(path string, c *Check, p *Plan, o *RunOut, r *Result, sig string) {
	rf := ReplayFile{Property: c.ID, Sig: sig, Canon: o.Canon, Plan: p, Verdict: o.Verdict, History: Dump(r, 600), LogTail: r.LogTail, Faults: r.Faults}
	for _, v := range o.Verdict.Violations {
		if v.Sig == sig || sig == "" {
			rf.Sig = v.Sig
			rf.Detail = v.Detail
			break
		}
	}
	b, _ := json.MarshalIndent(rf, "", " ")
	os.WriteFile(path, b, 0644)
}

func hasSig(vd Verdict, sig string) bool {
	for _, v := range vd.Violations {
		if v.Sig == sig {
			return true
		}
	}
	return false
}

func clonePlan(p *Plan) *Plan {
	b, _ := json.Marshal(p)
	var q Plan
	json.Unmarshal(b, &q)
	return &q
}

// shrinkJob: delta debugging on the plan, keeping candidates that reproduce the same signature.
func shrinkJob(t *testing.T, c *Check, job *Job, emit func(string, any)) {
	best := clonePlan(job.Plan)
	budget := job.MaxExec
	if budget == 0 {
		budget = 200
	}
	deadline := time.Now().Add(60 * time.Second)
	execs := 0
	try := func(q *Plan) bool {
		if execs >= budget || time.Now().After(deadline) {
			return false
		}
		execs++
		o, _ := RunOne(t, c, q, 0)
		return hasSig(o.Verdict, job.Sig)
	}
	changed := true
	for changed && execs < budget {
		changed = false
		for _, cand := range ShrinkCandidates(best) {
			if try(cand) {
				best = cand
				changed = true
				break
			}
		}
	}
	fmt.Printf("RUN %d\n", 0)
	o, r := RunOne(t, c, best, 0)
	emit("END", o)
	if job.Out != "" {
		writeReplay(job.Out, c, best, o, r, job.Sig)
	}
	fmt.Printf("SHRUNK execs=%d ok=%v\n", execs, hasSig(o.Verdict, job.Sig))
}

// shrinkCandidates proposes simpler plans (coarse first).
func ShrinkCandidates(p *Plan) []*Plan {
	var out []*Plan
	add := func(f func(q *Plan) bool) {
		q := clonePlan(p)
		if f(q) {
			out = append(out, q)
		}
	}
	// scheduler off / lower density
	add(func(q *Plan) bool {
		if q.Cfg.Sched.Density == 0 && q.Cfg.Sched.FocusDensity == 0 {
			return false
		}
		q.Cfg.Sched.Density, q.Cfg.Sched.FocusDensity = 0, 0
		return true
	})
	// faults off
	add(func(q *Plan) bool {
		sn := &q.Cfg.SN
		if sn.Loss == 0 && sn.Dup == 0 && sn.Corrupt == 0 && sn.TailProb == 0 {
			return false
		}
		sn.Loss, sn.Dup, sn.Corrupt, sn.TailProb = 0, 0, 0, 0
		return true
	})
	for _, k := range []string{"loss", "dup", "corrupt", "tail", "reseg"} {
		k := k
		add(func(q *Plan) bool {
			sn := &q.Cfg.SN
			switch k {
			case "loss":
				if sn.Loss == 0 {
					return false
				}
				sn.Loss = 0
			case "dup":
				if sn.Dup == 0 {
					return false
				}
				sn.Dup = 0
			case "corrupt":
				if sn.Corrupt == 0 {
					return false
				}
				sn.Corrupt = 0
			case "tail":
				if sn.TailProb == 0 {
					return false
				}
				sn.TailProb = 0
			case "reseg":
				if q.Cfg.MQ.Reseg == 0 {
					return false
				}
				q.Cfg.MQ.Reseg = 0
			}
			return true
		})
	}
	// drop whole actors
	for i := range p.Peers {
		i := i
		if len(p.Peers) > 1 {
			add(func(q *Plan) bool { q.Peers = append(q.Peers[:i], q.Peers[i+1:]...); return true })
		}
	}
	for i := range p.Clients {
		i := i
		if len(p.Clients)+len(p.Peers) > 1 {
			add(func(q *Plan) bool { q.Clients = append(q.Clients[:i], q.Clients[i+1:]...); return true })
		}
	}
	// drop halves / single ops
	dropOps := func(n int, del func(q *Plan, from, to int)) {
		if n == 0 {
			return
		}
		for sz := n / 2; sz >= 1; sz /= 2 {
			for from := 0; from+sz <= n; from += sz {
				from, to := from, from+sz
				add(func(q *Plan) bool { del(q, from, to); return true })
			}
			if sz == 1 {
				break
			}
		}
	}
	for i := range p.Peers {
		i := i
		dropOps(len(p.Peers[i].Ops), func(q *Plan, from, to int) {
			q.Peers[i].Ops = append(q.Peers[i].Ops[:from:from], q.Peers[i].Ops[to:]...)
		})
	}
	for i := range p.Clients {
		i := i
		dropOps(len(p.Clients[i].Ops), func(q *Plan, from, to int) {
			q.Clients[i].Ops = append(q.Clients[i].Ops[:from:from], q.Clients[i].Ops[to:]...)
		})
	}
	dropOps(len(p.Broker.Injects), func(q *Plan, from, to int) {
		q.Broker.Injects = append(q.Broker.Injects[:from:from], q.Broker.Injects[to:]...)
	})
	dropOps(len(p.Broker.Faults), func(q *Plan, from, to int) {
		q.Broker.Faults = append(q.Broker.Faults[:from:from], q.Broker.Faults[to:]...)
	})
	dropOps(len(p.Cfg.SN.Rules), func(q *Plan, from, to int) {
		q.Cfg.SN.Rules = append(q.Cfg.SN.Rules[:from:from], q.Cfg.SN.Rules[to:]...)
	})
	dropOps(len(p.Cfg.SN.Partitions), func(q *Plan, from, to int) {
		q.Cfg.SN.Partitions = append(q.Cfg.SN.Partitions[:from:from], q.Cfg.SN.Partitions[to:]...)
	})
	if p.SGW != nil {
		dropOps(len(p.SGW.Ops), func(q *Plan, from, to int) { q.SGW.Ops = append(q.SGW.Ops[:from:from], q.SGW.Ops[to:]...) })
		dropOps(len(p.SGW.Rules), func(q *Plan, from, to int) { q.SGW.Rules = append(q.SGW.Rules[:from:from], q.SGW.Rules[to:]...) })
	}
	if p.TX != nil {
		for i := range p.TX.Threads {
			i := i
			dropOps(len(p.TX.Threads[i]), func(q *Plan, from, to int) {
				q.TX.Threads[i] = append(q.TX.Threads[i][:from:from], q.TX.Threads[i][to:]...)
			})
		}
	}
	// shrink payloads
	add(func(q *Plan) bool {
		ch := false
		for i := range q.Peers {
			for j := range q.Peers[i].Ops {
				if d := q.Peers[i].Ops[j].Pkt.Data; len(d) > 4 && q.Peers[i].Ops[j].Pkt.Raw == nil {
					q.Peers[i].Ops[j].Pkt.Data = d[:4]
					ch = true
				}
			}
		}
		for i := range q.Broker.Injects {
			if d := q.Broker.Injects[i].Payload; len(d) > 4 {
				q.Broker.Injects[i].Payload = d[:4]
				ch = true
			}
		}
		return ch
	})
	// shorter horizon
	add(func(q *Plan) bool {
		if q.Cfg.HorizonMs <= 2000 {
			return false
		}
		q.Cfg.HorizonMs /= 2
		return true
	})
	return out
}

var _ = strings.Join
