package world

import (
	"bytes"
	"fmt"

	"verifsim/refmqtt"
	"verifsim/refsn"
)

// sessTrack follows one gateway session as the properties describe it (a reference model of
// the session state, derived only from packets on the wire).
type sessTrack struct {
	v   *View
	sv  *SessView
	cfg *Config

	cid        string
	connected  bool // gateway has sent CONNACK(accepted) and the client has not disconnected since
	everConn   bool
	asleep     bool // between the gateway's DISCONNECT reply to DISCONNECT(d) and the next CONNACK
	brokerDown bool // broker connection closed (either side) or dial failed
	ended      bool

	denotes map[uint16]string // registered ids the client has been told about
	maybe   map[uint16]string // ids the gateway may know but the client was not (yet) told: don't-care
	pendReg map[uint16]string   // client REGISTER msgid -> name
	pendSub map[uint16]refsn.Pkt // client SUBSCRIBE msgid -> packet
	gwReg   map[uint16]refsn.Pkt // gateway REGISTER msgid -> packet
}

func newTrack(v *View, sv *SessView) *sessTrack {
	return &sessTrack{v: v, sv: sv, cfg: &v.R.Plan.Cfg, denotes: map[uint16]string{}, maybe: map[uint16]string{},
		pendReg: map[uint16]string{}, pendSub: map[uint16]refsn.Pkt{}, gwReg: map[uint16]refsn.Pkt{}}
}

// step updates the model with event e (call after the oracle looked at e).
func (t *sessTrack) step(e Ev) {
	switch e.Kind {
	case EvC2G:
		if e.SNErr != nil {
			return
		}
		p := e.SN
		switch p.Type {
		case refsn.CONNECT:
			// a CONNECT the gateway refuses outright (zero keep-alive, unknown protocol id) does not
			// associate the session with a client id
			if p.Duration != 0 && p.ProtocolID == 1 {
				t.cid = p.ClientID
			}
		case refsn.REGISTER:
			t.pendReg[p.MsgID] = p.TopicName
		case refsn.SUBSCRIBE:
			t.pendSub[p.MsgID] = p
			if p.TIT == refsn.TITNormal && !hasWild(p.TopicName) {
				// the gateway registers the name at once; the client learns the id with the SUBACK
			}
		case refsn.REGACK:
			if r, ok := t.gwReg[p.MsgID]; ok && p.TopicID == r.TopicID {
				if p.RC == refsn.RCAccepted {
					t.denotes[r.TopicID] = r.TopicName
					delete(t.maybe, r.TopicID)
				}
				delete(t.gwReg, p.MsgID)
			}
		case refsn.DISCONNECT:
			if !p.HasDur || p.Duration == 0 {
				t.connected = false
			}
		}
	case EvG2C:
		if e.SNErr != nil {
			return
		}
		p := e.SN
		switch p.Type {
		case refsn.CONNACK:
			if p.RC == refsn.RCAccepted {
				t.connected, t.everConn, t.asleep = true, true, false
			}
		case refsn.REGACK:
			if name, ok := t.pendReg[p.MsgID]; ok {
				if p.RC == refsn.RCAccepted {
					t.denotes[p.TopicID] = name
					delete(t.maybe, p.TopicID)
				}
				delete(t.pendReg, p.MsgID)
			}
		case refsn.SUBACK:
			if sub, ok := t.pendSub[p.MsgID]; ok {
				if sub.TIT == refsn.TITNormal && !hasWild(sub.TopicName) && p.TopicID != 0 {
					if p.RC == refsn.RCAccepted {
						t.denotes[p.TopicID] = sub.TopicName
						delete(t.maybe, p.TopicID)
					} else {
						t.maybe[p.TopicID] = sub.TopicName
					}
				}
				delete(t.pendSub, p.MsgID)
			}
		case refsn.REGISTER:
			t.gwReg[p.MsgID] = p
			if _, known := t.denotes[p.TopicID]; !known {
				t.maybe[p.TopicID] = p.TopicName
			}
		case refsn.DISCONNECT:
			// reply to DISCONNECT(d): asleep; plain: disconnected
			t.asleep = t.connected
		}
	case EvMqClose, EvBClose, EvBFin, EvMqDialX:
		t.brokerDown = true
	case EvEnd:
		t.ended = true
		t.connected = false
	}
}

// resolve says what topic a client PUBLISH/SUBSCRIBE reference denotes: (name, "yes"|"no"|"maybe").
func (t *sessTrack) resolve(tit uint8, tid uint16) (string, string) {
	switch tit {
	case refsn.TITNormal:
		if n, ok := t.denotes[tid]; ok {
			return n, "yes"
		}
		if n, ok := t.maybe[tid]; ok {
			return n, "maybe"
		}
		// an id the gateway allocated at SUBSCRIBE time whose SUBACK has not been sent yet
		for _, sub := range t.pendSub {
			if sub.TIT == refsn.TITNormal && !hasWild(sub.TopicName) {
				return sub.TopicName, "maybe-any"
			}
		}
		return "", "no"
	case refsn.TITPredefined:
		if n, ok := refPredefName(t.cfg.Predefined, t.cid, tid); ok {
			return n, "yes"
		}
		return "", "no"
	case refsn.TITShort:
		return refsn.ShortName(tid), "yes"
	}
	return "", "no"
}

func titName(t uint8) string {
	return []string{"registered", "predefined", "short", "reserved3"}[t&3]
}

// window returns the events of sv strictly after event position i up to (not including) the
// next EvC2G event.
func window(sv *SessView, i int) []Ev {
	j := i + 1
	for j < len(sv.Evs) && sv.Evs[j].Kind != EvC2G {
		j++
	}
	return sv.Evs[i+1 : j]
}

// ---------------------------------------------------------------------------------------------
// C01

func oracleC01(v *View, vd *Verdict) {
	auth := v.R.Plan.Cfg.Auth
	for _, sv := range v.Sess {
		t := newTrack(v, sv)
		for i, e := range sv.Evs {
			if e.Kind == EvC2G && e.SNErr == nil && e.SN.Type == refsn.PUBLISH && !t.brokerDown && !t.ended {
				p := e.SN
				accepted := t.connected && !t.asleep
				if !t.everConn && !auth && p.QoS == 3 && (p.TIT == refsn.TITShort || p.TIT == refsn.TITPredefined) {
					accepted = true
				}
				if accepted {
					vd.Trigger = true
					c01Publish(vd, t, sv, i, p)
				}
			}
			t.step(e)
		}
	}
}

func c01Publish(vd *Verdict, t *sessTrack, sv *SessView, i int, p refsn.Pkt) {
	name, how := t.resolve(p.TIT, p.TopicID)
	var fwd []refmqtt.Pkt
	died := false
	killedBy := int64(-1) // the gateway itself ended the session right after this packet: when
	for _, w := range window(sv, i) {
		if w.Kind == EvG2B && w.MQ.Type == refmqtt.PUBLISH {
			fwd = append(fwd, w.MQ)
		}
		if w.Kind == EvEnd || w.Kind == EvMqClose || w.Kind == EvShutdown || w.Kind == EvBFin {
			if !died && (w.Kind == EvEnd || w.Kind == EvMqClose) {
				killedBy = w.T
			}
			died = true
		}
	}
	dontCare := (p.Dup && (p.QoS == 0 || p.QoS == 3)) || ((p.QoS == 1 || p.QoS == 2) && p.MsgID == 0)
	kind := titName(p.TIT)
	if p.Long && len(p.Data) < 240 {
		kind += "/3-octet-length-form"
	}
	switch how {
	case "no":
		if len(fwd) > 0 {
			vd.Add("C01", fmt.Sprintf("C01/forwarded-unresolvable/tit=%s", kind),
				"session %s: PUBLISH %s denotes nothing but was forwarded as %s", sv.Name, p.String(), fwd[0].String())
		}
		return
	case "maybe", "maybe-any":
		if len(fwd) > 1 {
			vd.Add("C01", "C01/duplicate-forward/"+kind, "session %s: %s forwarded %d times", sv.Name, p.String(), len(fwd))
		}
		return
	}
	if refmqtt.TopicNameRule(name) != "" {
		// the id denotes a string that is no MQTT topic name: refusing it is right, forwarding it is C24's business
		return
	}
	if len(fwd) == 0 {
		// no shutdown, no broker close, no other packet: the gateway answered a PUBLISH that denotes a
		// valid topic by ending the session (within the poll interval)
		if killedBy >= 0 && !dontCare && killedBy-sv.Evs[i].T <= pollInterval+slack(t.v) {
			vd.Add("C01", "C01/not-forwarded/session-ended/"+kind, "session %s t=%d: accepted %s (topic %q) was not forwarded: the gateway ended the session", sv.Name, sv.Evs[i].T, p.String(), name)
			return
		}
		if died || dontCare {
			return
		}
		vd.Add("C01", "C01/not-forwarded/"+kind, "session %s t=%d: accepted %s (topic %q) produced no MQTT PUBLISH", sv.Name, sv.Evs[i].T, p.String(), name)
		return
	}
	if len(fwd) > 1 {
		vd.Add("C01", "C01/duplicate-forward/"+kind, "session %s: %s forwarded %d times", sv.Name, p.String(), len(fwd))
		return
	}
	if dontCare {
		return
	}
	m := fwd[0]
	wantQ := p.QoS
	if wantQ == 3 {
		wantQ = 0
	}
	mism := func(field string, a, b any) {
		vd.Add("C01", "C01/field-mismatch/"+field, "session %s: %s forwarded as %s (%s: want %v got %v)", sv.Name, p.String(), m.String(), field, a, b)
	}
	if m.Topic != name {
		mism("topic/"+kind, name, m.Topic)
	}
	if !bytes.Equal(m.Payload, p.Data) {
		mism("payload", len(p.Data), len(m.Payload))
	}
	if m.Retain != p.Retain {
		mism("retain", p.Retain, m.Retain)
	}
	if m.Dup != p.Dup {
		mism("dup", p.Dup, m.Dup)
	}
	if m.QoS != wantQ {
		mism("qos", wantQ, m.QoS)
	}
	if (wantQ == 1 || wantQ == 2) && m.ID != p.MsgID {
		mism("msgid", p.MsgID, m.ID)
	}
}

// ---------------------------------------------------------------------------------------------
// C03

func oracleC03(v *View, vd *Verdict) {
	for _, sv := range v.Sess {
		t := newTrack(v, sv)
		// broker -> client one-to-one (by type and id), evaluated at the end
		type key struct {
			typ byte
			id  uint16
		}
		b2g := map[key]int{}
		b2gLate := map[key]int{}
		g2c := map[key]int{}
		clientPingsLate := 0
		ownRefusal := map[key]int{}
		subCodes := map[uint16][]byte{} // msgid -> codes the broker sent
		clientPings := 0                // client PINGREQs relayed to the broker
		// the run ends with a gateway shutdown: the books are closed there (a session that is alive until
		// then has not "ended"), and what the broker sent during the last second before it is not owed
		shutT := v.R.SimNs
		for _, e := range sv.Evs {
			if e.Kind == EvShutdown {
				shutT = e.T
				break
			}
		}
		cutT := shutT - int64(1e9) - v.R.StalledNs
		for i, e := range sv.Evs {
			if e.Kind == EvShutdown {
				break
			}
			live := t.connected && !t.asleep && !t.brokerDown && !t.ended
			switch {
			case e.Kind == EvC2G && e.SNErr == nil && live:
				p := e.SN
				var want *refmqtt.Pkt
				skip := false
				switch p.Type {
				case refsn.SUBSCRIBE, refsn.UNSUBSCRIBE:
					if p.TIT == 3 || p.QoS == 3 || p.MsgID == 0 {
						skip = true // untranslatable input: C24's business
						break
					}
					var name string
					how := "yes"
					if p.TIT == refsn.TITNormal {
						name = p.TopicName
						if refmqtt.FilterRule(name) != "" {
							skip = true
						}
					} else {
						name, how = t.resolve(p.TIT, p.TopicID)
					}
					if how != "yes" || refmqtt.FilterRule(name) != "" {
						// (a short or predefined id may denote a string that is no MQTT topic filter)
						skip = true
						break
					}
					if p.Type == refsn.SUBSCRIBE {
						want = &refmqtt.Pkt{Type: refmqtt.SUBSCRIBE, ID: p.MsgID, Filters: []string{name}, QoSs: []byte{p.QoS}}
					} else {
						want = &refmqtt.Pkt{Type: refmqtt.UNSUBSCRIBE, ID: p.MsgID, Filters: []string{name}}
					}
				case refsn.PUBREL:
					if p.MsgID == 0 {
						skip = true
						break
					}
					want = &refmqtt.Pkt{Type: refmqtt.PUBREL, ID: p.MsgID}
				case refsn.PINGREQ:
					want = &refmqtt.Pkt{Type: refmqtt.PINGREQ}
				case refsn.DISCONNECT:
					if !p.HasDur || p.Duration == 0 {
						want = &refmqtt.Pkt{Type: refmqtt.DISCONNECT}
					}
				}
				if want != nil && !skip {
					vd.Trigger = true
					var got []refmqtt.Pkt
					died := false
					for _, w := range window(sv, i) {
						if w.Kind == EvG2B && w.MQ.Type == want.Type {
							got = append(got, w.MQ)
						}
						if w.Kind == EvEnd || w.Kind == EvMqClose || w.Kind == EvShutdown || w.Kind == EvBFin {
							died = true
						}
					}
					// the sleep pinger may add PINGREQs of its own; it only exists while asleep (not live)
					switch {
					case len(got) == 0 && !died:
						vd.Add("C03", "C03/not-translated/"+p.Name(), "session %s: %s produced no MQTT %s", sv.Name, p.String(), want.Name())
					case len(got) > 1:
						vd.Add("C03", "C03/translated-twice/"+p.Name(), "session %s: %s produced %d MQTT %s", sv.Name, p.String(), len(got), want.Name())
					case len(got) == 1:
						g := got[0]
						if want.Type == refmqtt.PINGREQ {
							if e.T <= cutT {
								clientPings++
							} else {
								clientPingsLate++
							}
						}
						if g.ID != want.ID {
							vd.Add("C03", "C03/field-mismatch/msgid/"+p.Name(), "session %s: %s -> %s", sv.Name, p.String(), g.String())
						}
						if len(want.Filters) == 1 && (len(g.Filters) != 1 || g.Filters[0] != want.Filters[0]) {
							vd.Add("C03", "C03/field-mismatch/filter/"+p.Name()+"/"+titName(p.TIT), "session %s: %s -> %s (want filter %q)", sv.Name, p.String(), g.String(), want.Filters[0])
						}
						if want.Type == refmqtt.SUBSCRIBE && (len(g.QoSs) != 1 || g.QoSs[0] != want.QoSs[0]) {
							vd.Add("C03", "C03/field-mismatch/requested-qos", "session %s: %s -> %s", sv.Name, p.String(), g.String())
						}
					}
				}
			case e.Kind == EvB2G && live:
				cnt := b2g
				if e.T > cutT {
					cnt = b2gLate // may or may not be relayed before the books are closed
				}
				switch e.MQ.Type {
				case refmqtt.PUBREC, refmqtt.PUBCOMP, refmqtt.UNSUBACK:
					cnt[key{e.MQ.Type, e.MQ.ID}]++
				case refmqtt.PINGRESP:
					cnt[key{e.MQ.Type, 0}]++
				case refmqtt.SUBACK:
					cnt[key{e.MQ.Type, e.MQ.ID}]++
					subCodes[e.MQ.ID] = e.MQ.Codes
				}
			case e.Kind == EvG2C && e.SNErr == nil:
				p := e.SN
				switch p.Type {
				case refsn.PUBREC:
					g2c[key{refmqtt.PUBREC, p.MsgID}]++
				case refsn.PUBCOMP:
					g2c[key{refmqtt.PUBCOMP, p.MsgID}]++
				case refsn.UNSUBACK:
					g2c[key{refmqtt.UNSUBACK, p.MsgID}]++
				case refsn.PINGRESP:
					if live { // (the PINGRESP that ends a wake-up procedure is the gateway's own)
						g2c[key{refmqtt.PINGRESP, 0}]++
					}
				case refsn.SUBACK:
					g2c[key{refmqtt.SUBACK, p.MsgID}]++
					if p.RC != refsn.RCAccepted {
						ownRefusal[key{refmqtt.SUBACK, p.MsgID}]++ // possibly the gateway's own refusal (no broker SUBACK behind it)
					}
					sub, okSub := t.pendSub[p.MsgID]
					codes, okCodes := subCodes[p.MsgID]
					if okSub && okCodes && len(codes) == 1 {
						vd.Trigger = true
						code := codes[0]
						acc := p.RC == refsn.RCAccepted
						if acc != (code <= 2) {
							vd.Add("C03", fmt.Sprintf("C03/suback-accept/code=%#x,rc=%d", code, p.RC), "session %s: broker SUBACK code %#x -> %s", sv.Name, code, p.String())
						}
						if acc && code <= 2 && p.QoS != code {
							vd.Add("C03", fmt.Sprintf("C03/suback-qos/granted=%d,sent=%d", code, p.QoS), "session %s: broker granted QoS %d, MQTT-SN SUBACK says %d (%s)", sv.Name, code, p.QoS, p.String())
						}
						if acc {
							switch {
							case sub.TIT == refsn.TITShort || (sub.TIT == refsn.TITNormal && hasWild(sub.TopicName)):
								if p.TopicID != 0 {
									vd.Add("C03", "C03/suback-topicid/nonzero-for-wildcard-or-short", "session %s: %s -> %s", sv.Name, sub.String(), p.String())
								}
							case sub.TIT == refsn.TITPredefined:
								if p.TopicID != sub.TopicID {
									vd.Add("C03", "C03/suback-topicid/predefined", "session %s: %s -> %s", sv.Name, sub.String(), p.String())
								}
							case sub.TIT == refsn.TITNormal:
								if p.TopicID == 0 {
									vd.Add("C03", "C03/suback-topicid/zero-for-name", "session %s: %s -> %s", sv.Name, sub.String(), p.String())
								}
							}
						}
					}
				}
			}
			t.step(e)
		}
		if t.ended || t.brokerDown {
			continue // a terminating session may cut exchanges short
		}
		// PINGRESPs that answer pings the gateway sent on its own (sleep pinger, keep-alive on the
		// client's behalf) are not owed to the client: at most one per relayed client PINGREQ is
		pk := key{refmqtt.PINGRESP, 0}
		allPings := clientPings + clientPingsLate
		if b2g[pk]+b2gLate[pk] > allPings {
			b2gLate[pk] = allPings - b2g[pk]
			if b2gLate[pk] < 0 {
				b2g[pk], b2gLate[pk] = allPings, 0
			}
		}
		if b2g[pk] > clientPings {
			b2gLate[pk] += b2g[pk] - clientPings
			b2g[pk] = clientPings
		}
		keys := map[key]bool{}
		for k := range b2g {
			keys[k] = true
		}
		for k := range b2gLate {
			keys[k] = true
		}
		for k := range g2c {
			keys[k] = true
		}
		for k := range keys {
			lo, hi := b2g[k], b2g[k]+b2gLate[k]+ownRefusal[k]
			if g2c[k] < lo || g2c[k] > hi {
				vd.Add("C03", fmt.Sprintf("C03/broker-to-client/%s/sent=%d,relayed=%d", refmqtt.TypeName(k.typ), min(lo, 2), min(g2c[k], 2)),
					"session %s: broker sent %d (+%d in the last second) %s(id=%d), gateway relayed %d", sv.Name, lo, b2gLate[k], refmqtt.TypeName(k.typ), k.id, g2c[k])
			}
		}
	}
}

// ---------------------------------------------------------------------------------------------
// C04

func oracleC04(v *View, vd *Verdict) {
	for _, sv := range v.Sess {
		t := newTrack(v, sv)
		bound := map[uint16]string{}
		nalloc := 0
		exhausted := false
		bind := func(id uint16, name, via string, e Ev) {
			nalloc++
			if id < 1 || id > 0xFFFE {
				vd.Add("C04", "C04/out-of-range/"+via, "session %s: id %d for %q via %s", sv.Name, id, name, via)
			}
			if pn, ok := refPredefName(t.cfg.Predefined, t.cid, id); ok {
				vd.Add("C04", "C04/collides-with-predefined/"+via, "session %s (client %q): id %d handed out for %q via %s but predefined id %d = %q", sv.Name, t.cid, id, name, via, id, pn)
			}
			if old, ok := bound[id]; ok && old != name {
				sig := "C04/id-rebound/" + via
				if exhausted {
					sig = "C04/id-rebound/after-exhaustion/" + via
				}
				vd.Add("C04", sig, "session %s: id %d denoted %q and now %q (via %s)", sv.Name, id, old, name, via)
			}
			bound[id] = name
		}
		for _, e := range sv.Evs {
			if e.Kind == EvG2C && e.SNErr == nil {
				p := e.SN
				switch p.Type {
				case refsn.REGACK:
					if name, ok := t.pendReg[p.MsgID]; ok {
						if p.RC == refsn.RCAccepted {
							bind(p.TopicID, name, "REGACK", e)
						} else {
							exhausted = true
							t.v.R.Probes["c04-refused"]++
						}
					}
				case refsn.SUBACK:
					if sub, ok := t.pendSub[p.MsgID]; ok && sub.TIT == refsn.TITNormal && !hasWild(sub.TopicName) {
						if p.TopicID != 0 {
							bind(p.TopicID, sub.TopicName, "SUBACK", e)
						} else if p.RC != refsn.RCAccepted {
							exhausted = true
						}
					}
				case refsn.REGISTER:
					bind(p.TopicID, p.TopicName, "REGISTER", e)
				}
			}
			t.step(e)
		}
		if nalloc >= 3 {
			vd.Trigger = true
		}
	}
}
