package world

import (
	"time"
	"fmt"

	"verifsim/refsn"
	"verifsim/simrt"
)

// ---------------------------------------------------------------------------------------------
// shared generator pieces

var namePool = []string{"t/a", "t/b", "x/y/z", "dev/1/temp", "n/1", "n/2", "n/3", "n/4", "long/topic/name/with/levels", "q"}
// 2-octet names: ASCII, and one-character names whose UTF-8 form is two octets (é, µ)
var shortPool = []string{"ab", "cd", "zz", "a/", "\u00e9", "\u00b5"}
var wildPool = []string{"t/#", "#", "+/a", "x/+/z", "n/+", "dev/+/temp"}

// SchedFor picks a scheduling mode swarm-style: none / sparse / focus / dense.
func (g *Gen) Sched(focus ...string) simrt.SchedCfg {
	var c simrt.SchedCfg
	switch x := g.Float(); {
	case x < 0.08:
		// a node that is slow all the time: dense yields and many short stalls, so that replies arrive
		// while the code that asked for them is still between two statements
		c = simrt.SchedCfg{Density: 0.3 + g.Float()*0.7, Overlap: true, StallProb: 0.25, MaxStall: time.Duration(g.Range(300, 5000)) * time.Microsecond, MaxStalls: 60, Sticky: []float64{0, 0.8, 0.95}[g.Intn(3)]}
		// the budget is gone within the first exchanges of a session: in two thirds of these runs the
		// slowness begins later, somewhere in the first 80 % of the horizon (resolved when the run starts)
		if g.Bool(0.66) {
			c.StallAfterFrac = g.Float() * 0.8
		}
		return c
	case x < 0.3:
		return simrt.SchedCfg{}
	case x < 0.6:
		c = simrt.SchedCfg{Density: 0.01 + g.Float()*0.08}
	case x < 0.85 && len(focus) > 0:
		c = simrt.SchedCfg{Density: g.Float() * 0.02, Focus: focus, FocusDensity: 0.3 + g.Float()*0.7}
	default:
		c = simrt.SchedCfg{Density: 0.3 + g.Float()*0.7}
	}
	// slow node: goroutines stay parked at a yield while virtual time passes and further events
	// arrive, so that handlers reacting to different events (and timers) really overlap
	if g.Bool(0.5) {
		c.Sticky = []float64{0.7, 0.9, 0.97}[g.Intn(3)]
	}
	if g.Bool(0.6) {
		c.Overlap = true
		c.StallProb = []float64{0.002, 0.01, 0.05}[g.Intn(3)]
		c.MaxStall = []time.Duration{200 * time.Microsecond, 5 * time.Millisecond, 50 * time.Millisecond}[g.Intn(3)]
		c.MaxStalls = g.Range(2, 12)
		if g.Bool(0.5) {
			c.StallAfterFrac = g.Float() * 0.8
		}
	}
	return c
}

// BaseCfg: a gateway world with lossless links.
func (g *Gen) BaseCfg() Config {
	c := Config{Gateway: true, RetryDelayMs: g.Range(1000, 10000), RetryCount: uint(g.Range(1, 4)), HorizonMs: 60000}
	c.SN = LinkProfile{MinLatUs: 100, MaxLatUs: g.Range(500, 20000), FIFO: g.Bool(0.5)}
	c.MQ = StreamProfile{MinLatUs: 50, MaxLatUs: g.Range(100, 3000)}
	if g.Bool(0.3) {
		c.MQ.Reseg = 0.3
	}
	return c
}

// PredefWithFilters: like Predef, and a quarter of the configurations contain a name that is a topic
// filter (raw-peer gateway checks: what the gateway does with a PUBLISH to such an id).
func (g *Gen) PredefWithFilters(cids []string) map[string]map[uint16]string {
	g.filterNames = true
	defer func() { g.filterNames = false }()
	return g.Predef(cids)
}

// Predef draws a predefined-topic configuration with client-specific / "*" overlaps.
func (g *Gen) Predef(cids []string) map[string]map[uint16]string {
	m := map[string]map[uint16]string{}
	if g.Bool(0.2) {
		return m
	}
	names := []string{"pre/1", "pre/2", "pre/3", "pre/x/y"}
	if g.filterNames && g.Bool(0.25) {
		// a predefined name may be a filter (fine for SUBSCRIBE) — it is no topic name for a PUBLISH
		names[g.Intn(4)] = []string{"pre/+/w", "pre/#", "+"}[g.Intn(3)]
	}
	// within one map every name appears at most once: Go map iteration order in GetTopicID (N7)
	// would otherwise make the id the gateway picks for a name differ between executions.
	draw := func(maxID int64) map[uint16]string {
		mm := map[uint16]string{}
		perm := []int{0, 1, 2, 3}
		for i := 3; i > 0; i-- {
			j := g.Intn(i + 1)
			perm[i], perm[j] = perm[j], perm[i]
		}
		n := int(g.Range(1, 3))
		for i := 0; i < n; i++ {
			id := uint16(g.Range(1, maxID))
			if _, dup := mm[id]; dup {
				continue
			}
			mm[id] = names[perm[i]]
		}
		return mm
	}
	m["*"] = draw(6)
	for _, c := range cids {
		if g.Bool(0.5) {
			m[c] = draw(8)
		}
	}
	return m
}

// UniquePredef draws a configuration in which, for every client, ids and names are in bijection
// (no shadowing, no duplicate names) — used where Go map iteration order must not matter (N7).
func (g *Gen) UniquePredef(cids []string) map[string]map[uint16]string {
	m := map[string]map[uint16]string{}
	names := []string{"pre/1", "pre/2", "pre/3", "pre/x/y", "pre/5"}
	all := map[uint16]string{}
	n := int(g.Range(1, 3))
	for i := 0; i < n; i++ {
		all[uint16(2+i)] = names[i]
	}
	m["*"] = all
	for ci, c := range cids {
		if g.Bool(0.5) {
			m[c] = map[uint16]string{uint16(10 + ci): names[3+ci%2]}
		}
	}
	return m
}

func refPredefName(m map[string]map[uint16]string, cid string, id uint16) (string, bool) {
	if cm, ok := m[cid]; ok {
		if n, ok := cm[id]; ok {
			return n, true
		}
	}
	if am, ok := m["*"]; ok {
		if n, ok := am[id]; ok {
			return n, true
		}
	}
	return "", false
}

// refPredefIDs: every id that denotes name for this client (C05 semantics: client entry wins).
func refPredefIDs(m map[string]map[uint16]string, cid, name string) []uint16 {
	var out []uint16
	seen := map[uint16]bool{}
	for _, k := range []string{cid, "*"} {
		for id := range m[k] {
			if seen[id] {
				continue
			}
			if n, ok := refPredefName(m, cid, id); ok && n == name {
				seen[id] = true
				out = append(out, id)
			}
		}
	}
	return out
}

func connectPkt(cid string, ka uint16, will, clean bool) refsn.Pkt {
	return refsn.Pkt{Type: refsn.CONNECT, ProtocolID: 1, Duration: ka, ClientID: cid, Will: will, Clean: clean}
}

// payload with an embedded serial so oracles can attribute messages
func serialPayload(tag string, n int, extra int) []byte {
	b := []byte(fmt.Sprintf("%s%04d.", tag, n))
	for i := 0; i < extra; i++ {
		b = append(b, byte('a'+i%26))
	}
	return b
}

// sessGen builds one raw peer's op list along a loose model of the session.
type sessGen struct {
	g      *Gen
	t      int64 // ms
	ops    []PeerOp
	mid    uint16
	nreg   int
	serial int
	cid    string
	active bool // (generators that track it) the peer is in the active state
}

func (sg *sessGen) gap(lo, hi int64) { sg.t += sg.g.Range(lo, hi) }
func (sg *sessGen) add(p refsn.Pkt)  { sg.ops = append(sg.ops, PeerOp{AtMs: sg.t, Pkt: p}) }
func (sg *sessGen) nextMid() uint16 {
	sg.mid++
	if sg.mid == 0 {
		sg.mid = 1
	}
	return sg.mid
}

type sessOpts struct {
	Weird      float64 // probability of decodable-but-odd input per op
	Sleep      float64
	N          int
	KA         uint16
	NoDisc     bool
	PubOnly    bool
}

func (sg *sessGen) topicRef() (tit uint8, tid uint16) {
	g := sg.g
	switch g.Intn(10) {
	case 0, 1, 2, 3:
		// registered id: the gateway hands out 1,2,3… (skipping predefined) — guess inside the used range
		hi := sg.nreg + 2
		return refsn.TITNormal, uint16(g.Range(1, int64(hi)))
	case 4, 5:
		return refsn.TITPredefined, uint16(g.Range(1, 8))
	case 6, 7:
		return refsn.TITShort, g.shortID()
	case 8:
		return refsn.TITNormal, []uint16{0, 0xFFFF, 0xFFFE, 500}[g.Intn(4)]
	default:
		return refsn.TITPredefined, []uint16{0, 0xFFFF, 100}[g.Intn(3)]
	}
}

func (sg *sessGen) payload() []byte {
	g := sg.g
	sg.serial++
	extra := 0
	switch g.Intn(12) {
	case 0:
		extra = int(g.Range(236, 244)) // around the 255-byte header-form boundary (7+2+payload)
	case 1:
		extra = int(g.Range(900, 1400))
	case 2:
		extra = 7168 - 10
	default:
		extra = int(g.Range(0, 12))
	}
	return serialPayload(sg.cid+":", sg.serial, extra)
}

func (sg *sessGen) activeOp(o sessOpts) {
	g := sg.g
	weird := g.Bool(o.Weird)
	k := g.Intn(20)
	if o.PubOnly && k > 8 {
		k = 8
	}
	switch {
	case k < 3: // REGISTER
		name := namePool[g.Intn(len(namePool))]
		if weird {
			name = []string{"", "a/+", "#", "bad\x00nul", "\xff\xfe", "pre/1"}[g.Intn(6)]
		}
		sg.nreg++
		sg.add(refsn.Pkt{Type: refsn.REGISTER, MsgID: sg.nextMid(), TopicName: name})
	case k < 9: // PUBLISH
		tit, tid := sg.topicRef()
		q := uint8(g.Intn(4))
		p := refsn.Pkt{Type: refsn.PUBLISH, TIT: tit, TopicID: tid, QoS: q, Retain: g.Bool(0.2), Data: sg.payload()}
		if q == 1 || q == 2 {
			p.MsgID = sg.nextMid()
		}
		if weird {
			switch g.Intn(5) {
			case 0:
				p.TIT = 3
			case 1:
				p.Dup = true
			case 2:
				p.MsgID = 0
			case 3:
				p.Long = true
				if len(p.Data) > 200 {
					p.Data = p.Data[:20]
				}
			case 4:
				p.Data = nil
			}
		}
		sg.add(p)
	case k < 12: // SUBSCRIBE
		p := refsn.Pkt{Type: refsn.SUBSCRIBE, MsgID: sg.nextMid(), QoS: uint8(g.Intn(3))}
		switch g.Intn(4) {
		case 0:
			p.TIT, p.TopicName = refsn.TITNormal, namePool[g.Intn(len(namePool))]
			sg.nreg++
		case 1:
			p.TIT, p.TopicName = refsn.TITNormal, wildPool[g.Intn(len(wildPool))]
		case 2:
			p.TIT, p.TopicID = refsn.TITPredefined, uint16(g.Range(1, 8))
		case 3:
			p.TIT, p.TopicID = refsn.TITShort, g.shortID()
		}
		if weird {
			switch g.Intn(5) {
			case 0:
				p.QoS = 3
			case 1:
				p.TIT, p.TopicName = 3, "t/a"
			case 2:
				p.TIT, p.TopicName = refsn.TITNormal, []string{"a/#/b", "a+", "bad\x00", "\xc3\x28"}[g.Intn(4)]
			case 3:
				p.MsgID = 0
			case 4:
				p.Dup = true
			}
		}
		sg.add(p)
	case k < 14: // UNSUBSCRIBE (mostly of names that may well have a topic id in this session)
		p := refsn.Pkt{Type: refsn.UNSUBSCRIBE, MsgID: sg.nextMid()}
		switch g.Intn(3) {
		case 0:
			p.TIT, p.TopicName = refsn.TITNormal, append(namePool, wildPool...)[g.Intn(len(namePool)+len(wildPool))]
			if g.Bool(0.6) {
				p.TopicName = namePool[g.Intn(len(namePool))]
			}
		case 1:
			p.TIT, p.TopicID = refsn.TITPredefined, uint16(g.Range(1, 8))
		case 2:
			p.TIT, p.TopicID = refsn.TITShort, g.shortID()
		}
		if weird && g.Bool(0.5) {
			p.TIT, p.TopicName = 3, "t/a"
		}
		sg.add(p)
	case k < 15:
		sg.add(refsn.Pkt{Type: refsn.PINGREQ})
	case k < 16:
		sg.add(refsn.Pkt{Type: refsn.PUBREL, MsgID: uint16(g.Range(0, int64(sg.mid)+1))})
	case k < 17 && weird:
		t := []byte{refsn.PUBACK, refsn.PUBREC, refsn.PUBCOMP, refsn.REGACK, refsn.WILLTOPIC, refsn.WILLMSG, refsn.WILLTOPICUPD, refsn.WILLMSGUPD, refsn.AUTH}[g.Intn(9)]
		sg.add(refsn.Pkt{Type: t, MsgID: uint16(g.Range(0, 200)), TopicID: uint16(g.Range(0, 5)), TopicName: "w/t", Data: []byte("x"), AuthMethod: "PLAIN", Will: true})
	default:
		sg.add(refsn.Pkt{Type: refsn.PINGREQ})
	}
}

// genSession: CONNECT, N active ops with optional sleep cycles, optional DISCONNECT.
func (sg *sessGen) session(o sessOpts, will bool) {
	g := sg.g
	sg.gap(5, 500)
	sg.add(connectPkt(sg.cid, o.KA, will, true))
	sg.gap(300, 1500)
	for i := 0; i < o.N; i++ {
		if g.Bool(o.Sleep) {
			d := uint16(g.Range(1, 20))
			sg.add(refsn.Pkt{Type: refsn.DISCONNECT, HasDur: true, Duration: d})
			sg.gap(200, int64(d)*1000)
			sg.add(refsn.Pkt{Type: refsn.PINGREQ, Data: []byte(sg.cid)})
			sg.gap(200, 1500)
			sg.add(connectPkt(sg.cid, o.KA, false, false))
			sg.gap(300, 1200)
			continue
		}
		sg.activeOp(o)
		sg.gap(20, 1500)
	}
	if !o.NoDisc {
		sg.add(refsn.Pkt{Type: refsn.DISCONNECT})
	}
}

// injects draws broker publishes aimed at one peer.
func (g *Gen) injects(peer string, n int, from, to int64, tag string) []BrokerInject {
	var out []BrokerInject
	for i := 0; i < n; i++ {
		topic := ""
		switch g.Intn(5) {
		case 0:
			topic = shortPool[g.Intn(len(shortPool))]
		case 1:
			topic = []string{"pre/1", "pre/2", "pre/3", "pre/x/y"}[g.Intn(4)]
		default:
			topic = namePool[g.Intn(len(namePool))]
		}
		extra := int(g.Range(0, 10))
		if g.Bool(0.05) {
			extra = int(g.Range(240, 260))
		}
		out = append(out, BrokerInject{AtMs: g.Range(from, to), Session: peer, Force: true, Topic: topic,
			Payload: serialPayload(tag, i, extra), QoS: uint8(g.Intn(3)), Retain: g.Bool(0.2)})
	}
	if n > 0 && g.Bool(0.3) {
		// a volley: several messages on different brand-new names within one round trip, mostly QoS 0
		// (each needs a registration of its own, all in flight together)
		at := g.Range(from, to)
		for k := 0; k < int(g.Range(2, 4)); k++ {
			q := uint8(0)
			if g.Bool(0.25) {
				q = uint8(g.Intn(3))
			}
			out = append(out, BrokerInject{AtMs: at + g.Range(0, 2), Session: peer, Force: true, Topic: fmt.Sprintf("new/%s/%d", tag, k),
				Payload: serialPayload(tag+"v", k, int(g.Range(0, 6))), QoS: q})
		}
	}
	return out
}

func newRng(seed uint64) *simrt.Rng { return simrt.NewRng(seed) }

// visibleID picks a predefined id that is defined for the client (sorted, so the choice is stable).
func visibleID(g *Gen, m map[string]map[uint16]string, cid string) uint16 {
	var ids []uint16
	for id := uint16(1); id <= 64; id++ {
		if _, ok := refPredefName(m, cid, id); ok {
			ids = append(ids, id)
		}
	}
	if len(ids) == 0 {
		return 2
	}
	return ids[g.Intn(len(ids))]
}

// shortID: a 2-octet topic name as an id; mostly from the pool, sometimes any two octets (some
// are no MQTT topic name or filter: wildcards, NUL, invalid UTF-8).
func (g *Gen) shortID() uint16 {
	if g.Bool(0.12) {
		if g.Bool(0.5) {
			return refsn.ShortID([]string{"+a", "a+", "#a", "a#", "\x00a", "a\x00", "\xffa", "t\x86", "\xc3\x28"}[g.Intn(9)])
		}
		return uint16(g.Intn(65536))
	}
	return refsn.ShortID(shortPool[g.Intn(len(shortPool))])
}
