package world

import (
	"fmt"
	"os"
	"path/filepath"
	"sort"
	"strings"

	"verifsim/refmqtt"
	"verifsim/refsn"
	"verifsim/simrt"
)

// CLIPlan runs one of the three command-line tools through its real Application.Run inside the
// bubble: bisquitt-pub / bisquitt-sub against the scripted gateway, bisquitt (the gateway tool)
// against raw peers and the broker model.
type CLIPlan struct {
	Tool   string            `json:"tool"`
	Args   []string          `json:"args"`
	Env    map[string]string `json:"env,omitempty"`
	Files  map[string]string `json:"files,omitempty"` // name -> content; "{file:name}" in args/env is replaced by its path
	StopMs int64             `json:"stop_ms,omitempty"`
	// what the oracle needs to know about the configuration under test
	ClientID string                       `json:"client_id,omitempty"`
	Expect   map[string]map[uint16]string `json:"expect,omitempty"` // reference merge(file, options)
	Topic    string                       `json:"topic,omitempty"`
	Refuse   bool                         `json:"refuse,omitempty"` // C31: the tool must refuse to start
	HasUser  bool                         `json:"has_user,omitempty"`
}

// CLIRun is installed by the test file that the build overlay injects into cmd/<tool>.
var CLIRun func(args []string) error

// CLITool names the tool this binary contains ("" in the engine binary).
var CLITool string

func (s *Sim) startCLI() {
	cp := s.Plan.CLI
	dir, err := os.MkdirTemp("", "verif-cli-")
	if err != nil {
		s.W.Log("cli", "exit", nil, "mktemp: "+err.Error(), 0)
		return
	}
	s.cliDir = dir
	paths := map[string]string{}
	names := make([]string, 0, len(cp.Files))
	for n := range cp.Files {
		names = append(names, n)
	}
	sort.Strings(names)
	for _, n := range names {
		p := filepath.Join(dir, n)
		os.WriteFile(p, []byte(cp.Files[n]), 0644)
		paths[n] = p
	}
	subst := func(x string) string {
		for n, p := range paths {
			x = strings.ReplaceAll(x, "{file:"+n+"}", p)
		}
		return x
	}
	args := []string{cp.Tool}
	for _, a := range cp.Args {
		args = append(args, subst(a))
	}
	var envKeys []string
	for k := range cp.Env {
		envKeys = append(envKeys, k)
	}
	sort.Strings(envKeys)
	for _, k := range envKeys {
		os.Setenv(k, subst(cp.Env[k]))
	}
	s.cliEnv = envKeys
	if cp.Tool != "bisquitt" {
		// the tool's client library dials through the seam
		a := &clientActor{s: s, plan: &ClientPlan{Name: "cli"}, dialed: true}
		a.link = &snLink{s: s, name: "cli", addr: simrt.Addr{Net: "udp", S: "10.0.2.1:7000"}, ruleHits: map[int]int{}, sgw: s.sgw}
		s.links["cli"] = a.link
		s.clients = append(s.clients, a)
	}
	run := CLIRun
	s.W.At(0, "cli-start", func() {
		go func() {
			simrt.Resume("harness/cli-start")
			s.W.Log("cli", "start", nil, strings.Join(args, " "), 0)
			err := run(args)
			simrt.Resume("harness/cli-returned")
			s.W.Log("cli", "exit", nil, errStr(err), 0)
		}()
	})
	if cp.StopMs > 0 && s.sgw != nil {
		s.W.At(ms(cp.StopMs), "cli-stop", func() {
			if s.sgw.first != nil {
				s.sgw.send(s.sgw.first, refsn.Pkt{Type: refsn.DISCONNECT}, "stop")
			}
		})
	}
}

func (s *Sim) stopCLI() {
	for _, k := range s.cliEnv {
		os.Unsetenv(k)
	}
	if s.cliDir != "" {
		os.RemoveAll(s.cliDir)
	}
}

// ---------------------------------------------------------------------------------------------
// C30: predefined-topic configuration means the same in every tool

func cliExit(v *View) (string, bool) {
	for _, rec := range v.R.Hist {
		if rec.Ch == "cli" && rec.Kind == "exit" {
			return rec.S, true
		}
	}
	return "", false
}

func oracleC30(v *View, vd *Verdict) {
	cp := v.R.Plan.CLI
	if cp == nil {
		return
	}
	vd.Trigger = true
	exit, exited := cliExit(v)
	ids := refPredefIDs(cp.Expect, cp.ClientID, cp.Topic)
	wantPre := len(ids) > 0
	in := func(id uint16) bool {
		for _, x := range ids {
			if x == id {
				return true
			}
		}
		return false
	}
	src := "options"
	if len(cp.Files) > 0 {
		src = "file+options"
		hasOpt := false
		for _, a := range cp.Args {
			if a == "--predefined-topic" {
				hasOpt = true
			}
		}
		if !hasOpt {
			src = "file"
		}
	}
	switch cp.Tool {
	case "bisquitt-pub", "bisquitt-sub":
		var got *refsn.Pkt
		for _, e := range clientTx(v, "cli") {
			if e.SNErr != nil {
				continue
			}
			if (cp.Tool == "bisquitt-pub" && e.SN.Type == refsn.PUBLISH) || (cp.Tool == "bisquitt-sub" && e.SN.Type == refsn.SUBSCRIBE) {
				p := e.SN
				got = &p
				break
			}
		}
		if got == nil {
			vd.Add("C30", fmt.Sprintf("C30/%s/no-%s-sent/config=%s", cp.Tool, map[string]string{"bisquitt-pub": "publish", "bisquitt-sub": "subscribe"}[cp.Tool], src),
				"%s %v: nothing was published/subscribed (exit: %v %q); the merged configuration is %v", cp.Tool, cp.Args, exited, exit, cp.Expect)
			return
		}
		isPre := got.TIT == refsn.TITPredefined
		switch {
		case wantPre && !isPre:
			vd.Add("C30", fmt.Sprintf("C30/%s/predefined-entry-ignored/config=%s", cp.Tool, src), "%s: topic %q has predefined ids %v for client %q in merge(file, options), the tool sent %s", cp.Tool, cp.Topic, ids, cp.ClientID, got.String())
		case wantPre && isPre && !in(got.TopicID):
			vd.Add("C30", fmt.Sprintf("C30/%s/wrong-predefined-id/config=%s", cp.Tool, src), "%s: topic %q should use one of %v, the tool sent %s", cp.Tool, cp.Topic, ids, got.String())
		case !wantPre && isPre:
			vd.Add("C30", fmt.Sprintf("C30/%s/predefined-id-for-unmapped-topic/config=%s", cp.Tool, src), "%s: topic %q is not predefined for client %q in merge(file, options), the tool sent %s", cp.Tool, cp.Topic, cp.ClientID, got.String())
		}
	case "bisquitt":
		// the raw peer published with predefined ids: the broker must see the merged mapping's names
		for _, sv := range v.Sess {
			var cid string
			for i, e := range sv.Evs {
				if e.Kind != EvC2G || e.SNErr != nil {
					continue
				}
				if e.SN.Type == refsn.CONNECT {
					cid = e.SN.ClientID
				}
				if e.SN.Type != refsn.PUBLISH || e.SN.TIT != refsn.TITPredefined {
					continue
				}
				want, ok := refPredefName(cp.Expect, cid, e.SN.TopicID)
				var fwd []refmqtt.Pkt
				for _, w := range window(sv, i) {
					if w.Kind == EvG2B && w.MQ.Type == refmqtt.PUBLISH {
						fwd = append(fwd, w.MQ)
					}
				}
				switch {
				case ok && len(fwd) == 0:
					vd.Add("C30", "C30/bisquitt/predefined-entry-ignored/config="+src, "gateway tool: id %d is %q for client %q in merge(file, options) but the publish was not forwarded", e.SN.TopicID, want, cid)
				case ok && fwd[0].Topic != want:
					vd.Add("C30", "C30/bisquitt/wrong-name-for-id/config="+src, "gateway tool: id %d is %q for client %q in merge(file, options), forwarded as %q", e.SN.TopicID, want, cid, fwd[0].Topic)
				case !ok && len(fwd) > 0:
					vd.Add("C30", "C30/bisquitt/unmapped-id-forwarded/config="+src, "gateway tool: id %d is not defined for client %q, forwarded as %q", e.SN.TopicID, cid, fwd[0].Topic)
				}
			}
		}
		if exited {
			vd.Add("C30", "C30/bisquitt/tool-exited/config="+src, "gateway tool exited: %q (args %v)", exit, cp.Args)
		}
	}
}

// genPredefConfig draws a YAML file and an option list; returns both and the reference merge.
func genPredefConfig(g *Gen, cids []string) (yaml string, opts []string, merged map[string]map[uint16]string) {
	merged = map[string]map[uint16]string{}
	names := []string{"pre/1", "pre/2", "pre/3", "dev/x"}
	put := func(cid string, id uint16, name string) {
		if merged[cid] == nil {
			merged[cid] = map[uint16]string{}
		}
		merged[cid][id] = name
	}
	if g.Bool(0.7) {
		var sb strings.Builder
		sb.WriteString("---\n")
		for _, cid := range append([]string{"*"}, cids...) {
			if !g.Bool(0.7) {
				continue
			}
			fmt.Fprintf(&sb, "%q:\n", cid)
			used := map[string]bool{}
			n := 0
			for id := uint16(1); id <= 4; id++ {
				nm := names[g.Intn(len(names))]
				if g.Bool(0.5) || used[nm] {
					continue
				}
				used[nm] = true
				fmt.Fprintf(&sb, "  %d: %s\n", id, nm)
				put(cid, id, nm)
				n++
			}
			if n == 0 && g.Bool(0.5) {
				// an empty section (everything commented out): a client with no entries of its own
				if merged[cid] == nil {
					merged[cid] = map[uint16]string{}
				}
			} else if n == 0 {
				fmt.Fprintf(&sb, "  9: filler/%s\n", strings.Trim(cid, "*"))
				put(cid, 9, "filler/"+strings.Trim(cid, "*"))
			}
		}
		yaml = sb.String()
		if yaml == "---\n" {
			yaml = ""
			merged = map[string]map[uint16]string{}
		}
	}
	nopt := int(g.Range(0, 5))
	starShort := map[uint16]bool{}
	for i := 0; i < nopt; i++ {
		id := uint16(g.Range(1, 4))
		nm := names[g.Intn(len(names))]
		// keep names unique within each client's map (N7): drop an option that would duplicate a name under another id
		cid := "*"
		if g.Bool(0.5) {
			cid = cids[g.Intn(len(cids))]
		}
		dup := false
		for oid, on := range merged[cid] {
			if on == nm && oid != id {
				dup = true
			}
		}
		if dup {
			continue
		}
		short := g.Bool(0.5)
		if was, ok := starShort[id]; ok && g.Bool(0.7) {
			short = !was // an override in the other spelling
		}
		if cid == "*" {
			starShort[id] = short
		}
		if cid == "*" && short {
			opts = append(opts, fmt.Sprintf("%s;%d", nm, id)) // the two spellings of "every client"
		} else if cid == "*" {
			opts = append(opts, fmt.Sprintf("*;%s;%d", nm, id))
		} else {
			opts = append(opts, fmt.Sprintf("%s;%s;%d", cid, nm, id))
		}
		put(cid, id, nm)
		// the same entry once more for one client: redundant at this point, not once the file's entry for
		// that client or a later every-client option comes into play
		if cid == "*" && g.Bool(0.3) {
			c2 := cids[g.Intn(len(cids))]
			dup2 := false
			for oid, on := range merged[c2] {
				if on == nm && oid != id {
					dup2 = true
				}
			}
			if !dup2 {
				opts = append(opts, fmt.Sprintf("%s;%s;%d", c2, nm, id))
				put(c2, id, nm)
			}
		}
	}
	return
}

func genC30(g *Gen, idx int) *Plan {
	tool := []string{"bisquitt-pub", "bisquitt-sub", "bisquitt"}[idx%3]
	cids := []string{"cA", "cB"}
	yaml, opts, merged := genPredefConfig(g, cids)
	cid := cids[g.Intn(2)]
	cp := &CLIPlan{Tool: tool, ClientID: cid, Expect: merged}
	var args []string
	if yaml != "" {
		cp.Files = map[string]string{"topics.yaml": yaml}
		if g.Bool(0.8) {
			args = append(args, "--predefined-topics-file", "{file:topics.yaml}")
		} else {
			cp.Env = map[string]string{"PREDEFINED_TOPICS_FILE": "{file:topics.yaml}"}
		}
	}
	for _, o := range opts {
		args = append(args, "--predefined-topic", o)
	}
	// a topic name to try: mostly one that the merged mapping knows
	topic := []string{"pre/1", "pre/2", "pre/3", "dev/x", "other/t"}[g.Intn(5)]
	cp.Topic = topic
	cfg := Config{RetryDelayMs: 10000, RetryCount: 4, HorizonMs: 8000}
	cfg.SN = LinkProfile{MinLatUs: 100, MaxLatUs: 3000, FIFO: true}
	cfg.MQ = StreamProfile{MinLatUs: 50, MaxLatUs: 500}
	p := &Plan{Family: "C30-" + tool, Cfg: cfg, CLI: cp}
	switch tool {
	case "bisquitt-pub":
		args = append(args, "--host", "127.0.0.1", "--port", "1883", "--client-id", cid, "-t", topic, "-m", "hello", "-q", fmt.Sprint(g.Intn(3)))
		p.SGW = &SGWPlan{}
	case "bisquitt-sub":
		args = append(args, "--host", "127.0.0.1", "--port", "1883", "--client-id", cid, "-t", topic, "-q", fmt.Sprint(g.Intn(3)))
		p.SGW = &SGWPlan{}
		cp.StopMs = 3000
	case "bisquitt":
		args = append(args, "--host", "127.0.0.1", "--port", "1883", "--mqtt-host", "10.9.9.9", "--mqtt-port", "1883")
		sg := &sessGen{g: g, cid: cid}
		sg.gap(300, 600)
		sg.add(connectPkt(cid, 60, false, true))
		sg.gap(400, 800)
		for id := uint16(1); id <= 5; id++ {
			sg.add(refsn.Pkt{Type: refsn.PUBLISH, TIT: refsn.TITPredefined, TopicID: id, QoS: 0, Data: serialPayload("g", int(id), 0)})
			sg.gap(100, 300)
			if _, ok := refPredefName(merged, cid, id); !ok {
				// an unknown id ends the session: reconnect
				sg.gap(300, 500)
				sg.add(connectPkt(cid, 60, false, true))
				sg.gap(400, 800)
			}
		}
		p.Peers = []PeerPlan{{Name: "p1", Ops: sg.ops}}
		p.Cfg.HorizonMs = sg.t + 2000
	}
	cp.Args = args
	return p
}

// ---------------------------------------------------------------------------------------------
// C31: credentials are never sent in plaintext unless explicitly allowed

func oracleC31(v *View, vd *Verdict) {
	cp := v.R.Plan.CLI
	if cp == nil {
		oracleC31Lib(v, vd)
		return
	}
	vd.Trigger = true
	exit, exited := cliExit(v)
	// refusing to start = returning an error without having touched the network (whatever the wording)
	didNet := len(clientTx(v, "cli")) > 0
	for _, rec := range v.R.Hist {
		if rec.Ch == "listener" && rec.Kind == "listen" {
			didNet = true
		}
	}
	refused := exited && exit != "nil" && exit != "" && !didNet
	desc := strings.Join(cp.Args, " ")
	for k, val := range cp.Env {
		desc += " " + k + "=" + val
	}
	if cp.Refuse && !refused {
		vd.Add("C31", "C31/"+cp.Tool+"/not-refused", "%s started with credentials over plain UDP without --insecure: %s (exit %v %q)", cp.Tool, desc, exited, exit)
	}
	// (an allowed combination may still stop early for another reason, e.g. --dtls without a
	// certificate: only an error that speaks of --insecure counts as a refusal there)
	if !cp.Refuse && refused && strings.Contains(strings.ToLower(exit), "insecure") {
		vd.Add("C31", "C31/"+cp.Tool+"/refused-although-allowed", "%s refused to start although the combination is allowed: %s (%q)", cp.Tool, desc, exit)
	}
	// nothing may reach the wire when the tool must refuse
	if cp.Refuse {
		if n := len(clientTx(v, "cli")); n > 0 {
			vd.Add("C31", "C31/"+cp.Tool+"/datagrams-sent-although-refusing", "%s sent %d datagrams: %s", cp.Tool, n, desc)
		}
	}
	if cp.Tool != "bisquitt" {
		c31AuthAfterConnect(v, vd, "cli", cp.HasUser, cp.Tool)
	}
}

// c31AuthAfterConnect: no AUTH without a user; with a user, AUTH is the datagram right after every CONNECT.
func c31AuthAfterConnect(v *View, vd *Verdict, name string, hasUser bool, who string) {
	tx := clientTx(v, name)
	for i, e := range tx {
		if e.SNErr != nil {
			continue
		}
		if e.SN.Type == refsn.AUTH && !hasUser {
			vd.Add("C31", "C31/"+who+"/auth-without-user", "%s sent AUTH although no user is configured", who)
		}
		if e.SN.Type == refsn.CONNECT && hasUser {
			vd.Trigger = true
			if i+1 >= len(tx) || tx[i+1].SNErr != nil || tx[i+1].SN.Type != refsn.AUTH {
				nth := 0
				for _, q := range tx[:i] {
					if q.SNErr == nil && q.SN.Type == refsn.CONNECT {
						nth++
					}
				}
				which := "first"
				if nth > 0 {
					which = "retransmitted"
				}
				// the very last CONNECT may be cut off by the end of the run
				if i+1 < len(tx) || v.R.SimNs-e.T > int64(2e9) {
					vd.Add("C31", "C31/"+who+"/connect-not-followed-by-auth/"+which, "%s: %s CONNECT at %d is not followed by AUTH", who, which, e.T)
				}
			}
		}
	}
}

func oracleC31Lib(v *View, vd *Verdict) {
	for ci := range v.R.Plan.Clients {
		cp := &v.R.Plan.Clients[ci]
		vd.Trigger = true
		c31AuthAfterConnect(v, vd, cp.Name, cp.User != "", "library")
	}
}

func genC31(g *Gen, idx int) *Plan {
	if idx%4 == 3 {
		// library half: CONNECT loss so that retries happen
		p, cp := g.clBase("C31-library")
		if g.Bool(0.6) {
			cp.User, cp.Password = "alice", []byte("secret")
		}
		cp.ConnectTimeoutMs = g.Range(300, 1500)
		cp.Ops = []ClientOp{{Op: "dial"}, {Op: "connect"}, {GapMs: 200, Op: "disconnect"}}
		p.SGW.Rules = []SGWRule{{On: "CONNECT", Count: int(g.Range(0, int64(cp.RetryCount)+1)), Act: "ignore"}}
		if p.SGW.Rules[0].Count == 0 {
			p.SGW.Rules = nil
		}
		p.Cfg.HorizonMs = 3000 + int64(cp.RetryCount+1)*cp.ConnectTimeoutMs
		return p
	}
	tool := []string{"bisquitt-pub", "bisquitt-sub", "bisquitt"}[idx%3]
	// all combinations of auth|user, password, dtls, insecure, each given as flag or as environment variable
	k := idx / 4
	bits := k % 16
	cred, pass, dtls, insecure := bits&1 != 0, bits&2 != 0, bits&4 != 0, bits&8 != 0
	viaEnv := (k / 16) % 16
	cp := &CLIPlan{Tool: tool, ClientID: "cA", Env: map[string]string{}}
	var args []string
	flag := func(bit int, on bool, name, env, val string) {
		if !on {
			return
		}
		if viaEnv&bit != 0 {
			if val == "" {
				val = "true"
			}
			cp.Env[env] = val
		} else if val == "" {
			args = append(args, "--"+name)
		} else {
			args = append(args, "--"+name, val)
		}
	}
	if tool == "bisquitt" {
		flag(1, cred, "auth", "AUTH", "")
	} else {
		flag(1, cred, "user", "USERNAME", "alice")
		flag(2, pass, "password", "PASSWORD", "secret")
	}
	flag(4, dtls, "dtls", "DTLS_ENABLED", "")
	flag(8, insecure, "insecure", "INSECURE", "")
	// a boolean option that is off may also be *given* as off: present is not the same as true
	offForm := func(bit int, on bool, name, env string) {
		if on || !g.Bool(0.4) {
			return
		}
		if viaEnv&bit != 0 {
			cp.Env[env] = []string{"0", "false", "F"}[g.Intn(3)]
		} else {
			args = append(args, "--"+name+"=false")
		}
	}
	offForm(4, dtls, "dtls", "DTLS_ENABLED")
	offForm(8, insecure, "insecure", "INSECURE")
	cp.HasUser = cred && tool != "bisquitt"
	cp.Refuse = cred && !dtls && !insecure
	cfg := Config{RetryDelayMs: 10000, RetryCount: 4, HorizonMs: 6000}
	cfg.SN = LinkProfile{MinLatUs: 100, MaxLatUs: 3000, FIFO: true}
	cfg.MQ = StreamProfile{MinLatUs: 50, MaxLatUs: 500}
	p := &Plan{Family: "C31-" + tool, Cfg: cfg, CLI: cp}
	switch tool {
	case "bisquitt-pub":
		args = append(args, "--host", "127.0.0.1", "--port", "1883", "--client-id", "cA", "-t", "ab", "-m", "hello")
		p.SGW = &SGWPlan{}
	case "bisquitt-sub":
		args = append(args, "--host", "127.0.0.1", "--port", "1883", "--client-id", "cA", "-t", "ab")
		p.SGW = &SGWPlan{}
		cp.StopMs = 2500
	case "bisquitt":
		args = append(args, "--host", "127.0.0.1", "--port", "1883", "--mqtt-host", "10.9.9.9", "--mqtt-port", "1883")
	}
	cp.Args = args
	return p
}

func init() {
	Register(&Check{ID: "C30", Level: "exploration", CLI: true,
		Rule:   "small predefined-topics YAML files ('*' and two client ids, ids 1-4, overlapping names) x up to 3 --predefined-topic options (with and without client id, overriding file entries and each other), file given as flag or environment variable, handed to bisquitt-pub, bisquitt-sub and bisquitt through their real Application.Run inside the bubble; observed: the topic-id type and id on the simulated wire when publishing/subscribing to a name (pub/sub against the scripted gateway) and the names the broker sees for predefined ids 1-5 (gateway tool against a raw peer and the broker model); judged against merge(file, options) computed by the reference; non-trivial = every run",
		Gen:    genC30, Oracle: oracleC30, Quick: 240, Thorough: 6000,
		Assumptions: []string{"signals, setuid, syslog and DTLS are not simulated; flags reaching them are never generated", "one fresh worker process per run (urfave/cli keeps flag state in the global Application)"}})
	Register(&Check{ID: "C31", Level: "fault_enumeration", CLI: true,
		Rule:   "all 16 combinations of {auth|user, password, dtls, insecure} x 16 ways of giving each as command-line flag or environment variable, for bisquitt, bisquitt-pub and bisquitt-sub (768 configurations; quick runs a 360-run prefix; a boolean that is off is in 40 % of the cases given explicitly as off, --insecure=false / INSECURE=0): refusal iff (auth|user) and not dtls and not insecure, nothing on the wire when refusing (--dtls without certificates stops at the certificate check: DTLS itself is not simulated); every fourth run is the library half: a client with/without user under CONNECT loss so that retries happen - no AUTH without user, AUTH right after every CONNECT with one; non-trivial = every run",
		Gen:    genC31, Oracle: oracleC31, Quick: 480, Thorough: 1100})
}
