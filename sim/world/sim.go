package world

import (
	"os"
	"context"
	"fmt"
	"net"
	"sort"
	"strings"
	"sync"
	"testing"
	"testing/synctest"
	"time"

	"github.com/energomonitor/bisquitt/client"
	"github.com/energomonitor/bisquitt/gateway"
	pkts1 "github.com/energomonitor/bisquitt/packets1"
	"github.com/energomonitor/bisquitt/topics"
	"github.com/energomonitor/bisquitt/util"
	"github.com/pion/udp"

	"verifsim/refsn"
	"verifsim/simrt"
)

// Sim is one executing world.
type Sim struct {
	Plan *Plan
	W    *simrt.World
	T    *testing.T

	mu          sync.Mutex // momentary
	fmu         sync.Mutex
	faults      map[string]int
	probes      map[string]int
	pendingDial []string
	dialBy      map[uint64]string       // goroutine about to dial the broker -> session (from the handler's log line)
	dialerOf    map[uint64]*clientActor // goroutine about to dial the gateway -> client actor
	sessions    []string
	broker      *broker
	peers       []*rawPeer
	sgw         *sgw
	clients     []*clientActor
	links       map[string]*snLink
	logRing     []string
	gwCancel    context.CancelFunc
	gwDone      chan error
	censusBase  int
	cliDir      string
	cliEnv      []string
}

// Result is what a run hands to the oracles.
type Result struct {
	Plan      *Plan
	Hist      []simrt.Rec // append (execution) order
	Canon     []simrt.Rec // canonical order
	LastArmNs int64       // virtual time of the latest timer armed by repo code before the census
	StalledNs int64       // total virtual time the driver let pass while goroutines were parked (slow node)
	Faults    map[string]int
	Probes    map[string]int
	Steps     int64
	Parks     int64
	Events    int64
	SitesHit  int
	Switches  int
	SimNs     int64
	StepCap   bool
	BubbleErr string // panic escaping synctest.Test (e.g. blocked goroutines remain)
	Leaked    []string
	LeakedN   int
	PreLeaked   []string // census taken right before the gateway's shutdown (Cfg.PreCensus)
	PreCensusNs int64
	MutexWaiters int
	LogTail   []string
	GwErr     string
	TX        *TXResult
	Trace     []string
}

func (s *Sim) fault(kind string) {
	s.fmu.Lock()
	s.faults[kind]++
	s.fmu.Unlock()
}

// Probe counts a "rare condition reached" marker.
func (s *Sim) Probe(name string) {
	s.fmu.Lock()
	s.probes[name]++
	s.fmu.Unlock()
}

// recLogger formats every message (so String() methods of packets run) into a ring buffer.
type recLogger struct {
	s   *Sim
	tag string
}

func (l recLogger) add(lv, f string, a ...interface{}) {
	msg := fmt.Sprintf(f, a...)
	s := l.s
	// which session dials the broker: the handler says so (tagged with the peer address) right
	// before it dials, in the same goroutine. Accept order and dial order need not agree.
	if strings.HasPrefix(msg, "Connecting to MQTT broker") {
		if i := strings.Index(l.tag, "h:"); i >= 0 {
			addr := l.tag[i+2:]
			if j := strings.Index(addr, "/"); j >= 0 {
				addr = addr[:j]
			}
			s.mu.Lock()
			for _, lk := range s.links {
				if lk.addr.S == addr {
					if s.dialBy == nil {
						s.dialBy = map[uint64]string{}
					}
					s.dialBy[simrt.Goid()] = lk.sessName()
				}
			}
			s.mu.Unlock()
		}
	}
	// a client's own state changes are part of the history (C33 judges pings against them)
	if strings.HasPrefix(l.tag, "cl:") && strings.HasPrefix(msg, "State changed to ") {
		name := strings.SplitN(l.tag[3:], "/", 2)[0]
		s.W.Log("state:"+name, "state", nil, strings.Trim(strings.TrimPrefix(msg, "State changed to "), "\"."), 0)
	}
	s.fmu.Lock()
	if len(s.logRing) >= 400 {
		s.logRing = s.logRing[200:]
	}
	s.logRing = append(s.logRing, fmt.Sprintf("%013d %s [%s] %s", int64(s.W.Now()), lv, l.tag, msg))
	s.fmu.Unlock()
}
func (l recLogger) Debug(f string, a ...interface{}) { l.add("D", f, a...) }
func (l recLogger) Info(f string, a ...interface{})  { l.add("I", f, a...) }
func (l recLogger) Error(f string, a ...interface{}) { l.add("E", f, a...) }
func (l recLogger) Sync()                            {}
func (l recLogger) WithTag(tag string) util.Logger {
	t := tag
	if l.tag != "" {
		t = l.tag + "/" + tag
	}
	return recLogger{l.s, t}
}

func ms(v int64) time.Duration { return time.Duration(v) * time.Millisecond }

func predef(m map[string]map[uint16]string) topics.PredefinedTopics {
	pt := topics.PredefinedTopics{}
	cids := make([]string, 0, len(m))
	for c := range m {
		cids = append(cids, c)
	}
	sort.Strings(cids)
	for _, c := range cids {
		ids := make([]int, 0)
		for id := range m[c] {
			ids = append(ids, int(id))
		}
		sort.Ints(ids)
		for _, id := range ids {
			pt.Add(c, m[c][uint16(id)], uint16(id))
		}
	}
	return pt
}

func (s *Sim) startGateway() {
	cfg := &s.Plan.Cfg
	gc := &gateway.GatewayConfig{
		MqttBrokerAddress: &net.TCPAddr{IP: net.IPv4(10, 9, 9, 9), Port: 1883},
		MqttUser:          cfg.GwUser,
		PredefinedTopics:  predef(cfg.Predefined),
		AuthEnabled:       cfg.Auth,
		RetryDelay:        ms(cfg.RetryDelayMs),
		RetryCount:        cfg.RetryCount,
	}
	if cfg.GwHasPass {
		gc.MqttPassword = append([]byte(nil), cfg.GwPass...) // a copy: the plan is the oracle's reference
		if gc.MqttPassword == nil {
			gc.MqttPassword = []byte{}
		}
	}
	ctx, cancel := simrt.WithCancel(context.Background())
	s.gwCancel = cancel
	gw := gateway.NewGateway(recLogger{s, "gw"}, gc)
	done := make(chan error, 1)
	s.gwDone = done
	go func() {
		simrt.Resume("harness/gateway-start")
		err := gw.ListenAndServe(ctx, gwAddr)
		simrt.Resume("harness/gateway-returned")
		s.W.Log("gw", "serve-return", nil, fmt.Sprint(err), 0)
		done <- err
	}()
}

// Execute runs the plan in a fresh bubble and returns the recorded result.
func Execute(t *testing.T, plan *Plan) (res *Result) {
	res = &Result{Plan: plan}
	func() {
		defer func() {
			if r := recover(); r != nil {
				res.BubbleErr = fmt.Sprint(r)
			}
		}()
		synctest.Test(t, func(t *testing.T) {
			s := &Sim{Plan: plan, T: t, faults: map[string]int{}, probes: map[string]int{}, links: map[string]*snLink{}}
			s.run(res)
		})
	}()
	return res
}

func (s *Sim) run(res *Result) {
	plan := s.Plan
	cfg := &plan.Cfg
	if cfg.Sched.StallAfterFrac > 0 && cfg.Sched.StallAfter == 0 {
		cfg.Sched.StallAfter = time.Duration(cfg.Sched.StallAfterFrac * float64(cfg.HorizonMs) * float64(time.Millisecond))
	}
	w := simrt.NewWorld(plan.Seed, cfg.Sched)
	w.Beat = func() { fmt.Println("HB") }
	s.W = w
	w.TraceOn = os.Getenv("VERIF_HIST") == "1"
	defer w.Close()
	w.Net.ErrClosedListener = udp.ErrClosedListener
	simrt.SetMaxTopicAlias(cfg.MaxTopicAlias)
	defer simrt.SetMaxTopicAlias(0)
	s.broker = newBroker(s)
	w.Net.DialTCP = s.dialTCP
	w.Net.DialUDP = s.dialUDP

	horizon := ms(cfg.HorizonMs)
	if horizon == 0 {
		horizon = 60 * time.Second
	}
	drain := ms(cfg.DrainMs)
	if drain == 0 {
		drain = 3 * time.Second
	}

	if plan.TX != nil {
		s.runTX(res, horizon)
		s.finish(res)
		return
	}

	if plan.SGW != nil {
		s.sgw = s.newSGW(plan.SGW)
		for _, op := range plan.SGW.Ops {
			op := op
			w.At(ms(op.AtMs), fmt.Sprintf("sgwop:%09d", op.AtMs), func() {
				if s.sgw.first != nil {
					s.sgw.sendOp(s.sgw.first, op.Pkt)
				}
			})
		}
	}
	if cfg.Gateway {
		s.startGateway()
	}
	if plan.CLI != nil {
		s.startCLI()
		defer s.stopCLI()
	}
	for i := range plan.Peers {
		p := s.newRawPeer(i, &plan.Peers[i])
		s.peers = append(s.peers, p)
		s.links[p.plan.Name] = p.link
		p.scheduleOp(0)
	}
	for i := range plan.Clients {
		c := s.newClientActor(i, &plan.Clients[i])
		s.clients = append(s.clients, c)
		w.At(ms(c.plan.StartMs), "clientstart:"+c.plan.Name, func() { go c.run() })
	}
	for i, in := range plan.Broker.Injects {
		in := in
		w.At(ms(in.AtMs), fmt.Sprintf("inject:%05d", i), func() { s.broker.inject(in) })
	}
	for i, f := range plan.Broker.Faults {
		f := f
		w.At(ms(f.AtMs), fmt.Sprintf("bfault:%05d", i), func() { s.broker.faultNow(f) })
	}

	shutdownAt := horizon
	if cfg.ShutdownAtMs > 0 && ms(cfg.ShutdownAtMs) < horizon {
		shutdownAt = ms(cfg.ShutdownAtMs)
	}
	w.Run(shutdownAt)
	if cfg.Gateway && cfg.PreCensus {
		_, res.PreLeaked = simrt.Census("github.com/energomonitor/bisquitt/")
		res.PreCensusNs = int64(w.Now())
	}
	if cfg.Gateway {
		w.Log("gw", "shutdown", nil, "", 0)
		s.fault("gw-shutdown")
		s.gwCancel()
		if cfg.RestartAtMs > 0 {
			w.Run(ms(cfg.RestartAtMs))
			s.fault("gw-restart")
			w.Log("gw", "restart", nil, "", 0)
			s.startGateway()
			w.Run(horizon)
			w.Log("gw", "shutdown", nil, "final", 0)
			s.gwCancel()
		} else if shutdownAt < horizon {
			w.Run(horizon)
		}
	}
	end := w.Now() + drain
	w.Run(end)
	// end of observation window: census of goroutines still inside repo code
	w.Log("sim", "census", nil, "", 0)
	s.finish(res)
}

func (s *Sim) finish(res *Result) {
	w := s.W
	res.StepCap = w.StepCapHit
	if w.Stalls > 0 {
		s.faults["stall"] += int(w.Stalls)
	}
	if w.TieBreaks > 0 {
		s.faults["same-site-arrivals-ordered-by-goroutine-id"] += int(w.TieBreaks)
	}
	if w.Overlaps > 0 {
		s.faults["event-overtakes-parked-goroutines"] += int(w.Overlaps)
	}
	res.StalledNs = int64(w.StalledFor)
	res.LastArmNs = w.LastArm.Load()
	res.MutexWaiters = w.MutexWaiters()
	n, sample := simrt.Census("github.com/energomonitor/bisquitt/")
	res.LeakedN, res.Leaked = n, sample
	// let everything run free so the bubble can end
	w.Drain()
	for _, c := range s.clients {
		c.forceClose()
	}
	if s.gwCancel != nil {
		s.gwCancel()
	}
	w.Drain()
	time.Sleep(3 * time.Second)
	synctest.Wait()
	res.Hist = w.RawHistory()
	res.Canon = w.History()
	res.Faults = s.faults
	res.Probes = s.probes
	res.Steps, res.Parks, res.Events = w.Steps, w.Parks, w.Events
	res.SitesHit = len(w.SitesHit)
	res.Switches = len(w.Switches)
	res.SimNs = int64(w.Now())
	res.Trace = w.Trace
	s.fmu.Lock()
	tail := s.logRing
	if len(tail) > 120 {
		tail = tail[len(tail)-120:]
	}
	res.LogTail = append([]string(nil), tail...)
	s.fmu.Unlock()
}

// ---------------------------------------------------------------------------------------------
// real client actor

type clientActor struct {
	s      *Sim
	plan   *ClientPlan
	c      *client.Client
	link   *snLink
	dialed bool
	echoN  int
}

func (s *Sim) newClientActor(i int, cp *ClientPlan) *clientActor {
	a := &clientActor{s: s, plan: cp}
	cc := &client.ClientConfig{
		ClientID: cp.ClientID, User: cp.User, Password: cp.Password, CleanSession: cp.Clean,
		WillTopic: cp.WillTopic, WillPayload: cp.WillPayload, WillQOS: cp.WillQoS, WillRetained: cp.WillRetained,
		KeepAlive: ms(cp.KeepAliveMs), ConnectTimeout: ms(cp.ConnectTimeoutMs), RetryDelay: ms(cp.RetryDelayMs), RetryCount: cp.RetryCount,
		PredefinedTopics: topics.PredefinedTopics{},
	}
	if cp.UsePredefined {
		cc.PredefinedTopics = predef(s.Plan.Cfg.Predefined)
	}
	a.c = client.NewClient(recLogger{s, "cl:" + cp.Name}, cc)
	a.link = &snLink{s: s, name: cp.Name, addr: simrt.Addr{Net: "udp", S: fmt.Sprintf("10.0.1.%d:6000", i+1)}, ruleHits: map[int]int{}, sgw: s.sgw}
	s.links[cp.Name] = a.link
	return a
}

// dialUDP serves net.Dial of the client library: the i-th dial belongs to the client that is
// dialing right now (marked by its actor before calling Dial).
func (s *Sim) dialUDP(addr string) (net.Conn, error) {
	s.mu.Lock()
	a := s.dialerOf[simrt.Goid()]
	if a == nil {
		for _, c := range s.clients {
			if c.dialed && c.link.clConn == nil {
				a = c
				break
			}
		}
	}
	s.mu.Unlock()
	if a == nil {
		return nil, fmt.Errorf("sim: unexpected dial to %s", addr)
	}
	cc := s.W.NewConn("cl.sn:"+a.plan.Name, true, a.link.addr, simrt.Addr{Net: "udp", S: addr})
	cc.Out = func(i int, b []byte) { a.link.c2g(b) }
	lk := a.link
	cc.WErr = func(i int, b []byte) error { return lk.werr("c2g", b) }
	a.link.clConn = cc
	return cc, nil
}

func (a *clientActor) forceClose() {
	if a.link.clConn != nil {
		a.link.clConn.Close()
	}
}

func errStr(err error) string {
	if err == nil {
		return "nil"
	}
	return err.Error()
}

func (a *clientActor) handler(filter string) client.MessageHandlerFunc {
	name := a.plan.Name
	return func(cl *client.Client, topic string, p *pkts1.Publish) {
		simrt.Resume("harness/handler:" + name) // (the client runs callbacks in goroutines of their own)
		a.s.W.Log("handler:"+name, "msg", append([]byte(nil), p.Data...), filter+"|"+topic, int64(p.QOS))
		if q := a.plan.EchoQoS; q > 0 {
			// the request/response pattern: the handler (a goroutine of its own) uses the client API and
			// waits for the gateway's reply
			a.s.mu.Lock()
			a.echoN++
			n := a.echoN
			a.s.mu.Unlock()
			a.do(1000+n, ClientOp{Op: "publish", Topic: "cd", QoS: q, Payload: append([]byte("e:"), p.Data...)})
		}
	}
}

func (a *clientActor) do(i int, op ClientOp) {
	w := a.s.W
	ch := "api:" + a.plan.Name
	desc := op.Op
	switch op.Op {
	case "register", "subscribe", "unsubscribe", "publish":
		desc += fmt.Sprintf(" %q", op.Topic)
	case "subscribe_pre", "unsubscribe_pre", "publish_pre":
		desc += fmt.Sprintf(" id=%d", op.TopicID)
	case "sleep":
		desc += fmt.Sprintf(" %dms", op.DurMs)
	}
	if strings.HasPrefix(op.Op, "publish") || strings.HasPrefix(op.Op, "subscribe") {
		desc += fmt.Sprintf(" qos=%d", op.QoS)
	}
	w.Log(ch, "invoke", op.Payload, desc, int64(i))
	var err error
	c := a.c
	switch op.Op {
	case "dial":
		a.s.mu.Lock()
		a.dialed = true
		if a.s.dialerOf == nil {
			a.s.dialerOf = map[uint64]*clientActor{}
		}
		a.s.dialerOf[simrt.Goid()] = a // clients dialling at the same instant must not swap links
		a.s.mu.Unlock()
		err = c.Dial(gwAddr)
	case "connect":
		err = c.Connect()
	case "register":
		err = c.Register(op.Topic)
	case "subscribe":
		err = c.Subscribe(op.Topic, op.QoS, a.handler(op.Topic))
	case "subscribe_pre":
		err = c.SubscribePredefined(op.TopicID, op.QoS, a.handler(fmt.Sprintf("pre:%d", op.TopicID)))
	case "unsubscribe":
		err = c.Unsubscribe(op.Topic)
	case "unsubscribe_pre":
		err = c.UnsubscribePredefined(op.TopicID)
	case "publish":
		err = c.Publish(op.Topic, op.Payload, op.QoS, op.Retain)
	case "publish_pre":
		err = c.PublishPredefined(op.TopicID, op.Payload, op.QoS, op.Retain)
	case "ping":
		err = c.Ping()
	case "sleep":
		err = c.Sleep(ms(op.DurMs))
	case "disconnect":
		err = c.Disconnect()
	case "close":
		err = c.Close()
	case "wait":
		err = c.Wait()
	default:
		err = fmt.Errorf("sim: unknown op %q", op.Op)
	}
	simrt.Resume("harness/api-return:" + a.plan.Name)
	w.Log(ch, "return", nil, errStr(err), int64(i))
}

func (a *clientActor) run() {
	simrt.Resume("harness/actor-start:" + a.plan.Name)
	for i, op := range a.plan.Ops {
		if op.GapMs > 0 {
			// released by a driver event with an odd-nanosecond offset: never ties with code timers
			c := make(chan struct{})
			a.s.W.After(ms(op.GapMs)+a.s.W.HarnessJitter("gap", a.plan.Name, i), fmt.Sprintf("gap:%s:%04d", a.plan.Name, i), func() { close(c) })
			<-c
			simrt.Resume("harness/actor-gap:" + a.plan.Name)
		}
		if op.Async {
			i, op := i, op
			go a.do(i, op)
			continue
		}
		a.do(i, op)
	}
	a.s.W.Log("api:"+a.plan.Name, "program-end", nil, "", 0)
}

var _ = refsn.CONNECT
