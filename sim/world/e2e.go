package world

import "fmt"

// genE2EBasic: one or two real clients against the real gateway and the broker model.
func genE2EBasic(g *Gen, tag string) *Plan {
	cfg := g.BaseCfg()
	cfg.Sched = g.Sched("client/", "gateway/handler1.go")
	nc := 1
	if g.Bool(0.3) {
		nc = 2
	}
	var cids []string
	for i := 0; i < nc; i++ {
		cids = append(cids, fmt.Sprintf("app%d", i+1))
	}
	cfg.Predefined = g.UniquePredef(cids)
	p := &Plan{Family: tag, Cfg: cfg}
	var total int64
	for i := 0; i < nc; i++ {
		cp := ClientPlan{Name: fmt.Sprintf("cl%d", i+1), ClientID: cids[i], Clean: true, KeepAliveMs: g.Range(5, 40) * 1000,
			ConnectTimeoutMs: 5000, RetryDelayMs: cfg.RetryDelayMs, RetryCount: cfg.RetryCount, UsePredefined: true, StartMs: g.Range(1, 300)}
		ops := []ClientOp{{Op: "dial"}, {Op: "connect"}}
		registered := []string{}
		t := int64(0)
		n := int(g.Range(2, 9))
		for k := 0; k < n; k++ {
			gap := g.Range(10, 2000)
			t += gap
			switch g.Intn(8) {
			case 0, 1:
				name := namePool[g.Intn(len(namePool))]
				registered = append(registered, name)
				ops = append(ops, ClientOp{GapMs: gap, Op: "register", Topic: name})
			case 2:
				f := append(wildPool, namePool...)[g.Intn(len(wildPool)+len(namePool))]
				ops = append(ops, ClientOp{GapMs: gap, Op: "subscribe", Topic: f, QoS: uint8(g.Intn(3))})
			case 3:
				ops = append(ops, ClientOp{GapMs: gap, Op: "subscribe", Topic: shortPool[g.Intn(len(shortPool))], QoS: uint8(g.Intn(3))})
			case 4, 5:
				if len(registered) == 0 {
					ops = append(ops, ClientOp{GapMs: gap, Op: "publish", Topic: shortPool[g.Intn(len(shortPool))], QoS: uint8(g.Intn(4)), Payload: serialPayload(cp.Name+":", k, int(g.Range(0, 20)))})
				} else {
					ops = append(ops, ClientOp{GapMs: gap, Op: "publish", Topic: registered[g.Intn(len(registered))], QoS: uint8(g.Intn(4)), Retain: g.Bool(0.2), Payload: serialPayload(cp.Name+":", k, e2ePayloadLen(g))})
				}
			case 6:
				ops = append(ops, ClientOp{GapMs: gap, Op: "ping"})
			case 7:
				ops = append(ops, ClientOp{GapMs: gap, Op: "publish_pre", TopicID: visibleID(g, cfg.Predefined, cids[i]), QoS: uint8(g.Intn(4)), Payload: serialPayload(cp.Name+":", k, 3)})
			}
		}
		ops = append(ops, ClientOp{GapMs: g.Range(10, 1000), Op: "disconnect"}, ClientOp{Op: "wait"})
		cp.Ops = ops
		p.Clients = append(p.Clients, cp)
		if t > total {
			total = t
		}
		p.Broker.Injects = append(p.Broker.Injects, g.injects(cp.Name, int(g.Range(0, 4)), 500, t+500, "b:")...)
		for k := range p.Broker.Injects {
			p.Broker.Injects[k].Force = false
			p.Broker.Injects[k].Session = ""
		}
	}
	p.Cfg.HorizonMs = total + 8000
	return p
}

// e2ePayloadLen: mostly small; now and then at the length-form boundary, at the datagram limit and beyond
// (what does not fit into a datagram must be refused by the client library, not sent)
func e2ePayloadLen(g *Gen) int {
	if g.Bool(0.06) {
		return int([]int64{240, 247, 248, 249, 250, 251, 8170, 8183, 8184, 8185, 9000, 70000}[g.Intn(12)])
	}
	return int(g.Range(0, 300))
}
