package world

import (
	"bytes"
	"fmt"
	"strings"

	"verifsim/refmqtt"
	"verifsim/refsn"
)

// ---------------------------------------------------------------------------------------------
// C07: no active session without a broker-accepted CONNECT

func seqSig(types []string) string {
	if len(types) > 4 {
		types = types[len(types)-4:]
	}
	return strings.Join(types, ",")
}

func snLabel(p refsn.Pkt) string {
	s := p.Name()
	switch p.Type {
	case refsn.DISCONNECT:
		if p.HasDur && p.Duration > 0 {
			s += "(d)"
		}
	case refsn.CONNECT:
		if p.Will {
			s += "(will)"
		}
	case refsn.PUBLISH:
		s += fmt.Sprintf("(q%d,%s)", p.QoS, titName(p.TIT))
	}
	return s
}

func oracleC07(v *View, vd *Verdict) {
	auth := v.R.Plan.Cfg.Auth
	for _, sv := range v.Sess {
		var seq []string       // client packets consumed so far (labels)
		// The broker accepted an MQTT CONNECT sent in this session. The statement says "in the current
		// session", not "for the latest client CONNECT": a broker CONNACK still on its way when the
		// client repeats its CONNECT is relayed inside the new exchange (what C09 calls a carried
		// CONNACK), and the session it reports was accepted by the broker.
		brokerAccepted := false
		connectSent := false
		everActive := false
		illegalAt := -1
		illegalWhat := ""
		npre := 0
		for _, e := range sv.Evs {
			switch e.Kind {
			case EvC2G:
				if e.SNErr != nil {
					break
				}
				p := e.SN
				seq = append(seq, snLabel(p))
				if everActive {
					break
				}
				npre++
				switch p.Type {
				case refsn.CONNECT, refsn.AUTH, refsn.WILLTOPIC, refsn.WILLMSG:
				case refsn.PUBLISH:
					if !auth && p.QoS == 3 && (p.TIT == refsn.TITShort || p.TIT == refsn.TITPredefined) {
						break
					}
					if illegalAt < 0 {
						illegalAt, illegalWhat = e.Idx, snLabel(p)
					}
				default:
					if illegalAt < 0 {
						illegalAt, illegalWhat = e.Idx, snLabel(p)
					}
				}
			case EvG2B:
				if everActive {
					break
				}
				m := e.MQ
				if m.Type == refmqtt.CONNECT {
					connectSent = true
				}
				if illegalAt >= 0 && e.Idx > illegalAt {
					vd.Add("C07", fmt.Sprintf("C07/forwarded-after-illegal-packet/%s", illegalWhat),
						"session %s: %s before any successful connect, yet the gateway then wrote %s to the broker (client packets: %s)", sv.Name, illegalWhat, m.String(), seqSig(seq))
				} else if m.Type != refmqtt.CONNECT && !(m.Type == refmqtt.PUBLISH && m.QoS == 0 && !auth) {
					vd.Add("C07", fmt.Sprintf("C07/relayed-before-connect/%s", m.Name()),
						"session %s: %s written to the broker before any accepted connect (client packets: %s)", sv.Name, m.String(), seqSig(seq))
				}
			case EvB2G:
				if e.MQ.Type == refmqtt.CONNACK && e.MQ.RC == 0 && connectSent {
					brokerAccepted = true
				}
			case EvG2C:
				if e.SNErr != nil {
					break
				}
				if e.SN.Type == refsn.CONNACK && e.SN.RC == refsn.RCAccepted {
					if !brokerAccepted {
						path := "other"
						hasD, hasP := false, false
						for _, l := range seq {
							if l == "DISCONNECT(d)" {
								hasD = true
							}
							if l == "PINGREQ" && hasD {
								hasP = true
							}
						}
						if hasD && hasP {
							path = "sleep-shortcut"
						}
						vd.Add("C07", "C07/active-without-broker-connect/"+path,
							"session %s t=%d: CONNACK(accepted) sent although the broker accepted no CONNECT in this session (client packets: %s)", sv.Name, e.T, seqSig(seq))
					}
					everActive = true
				}
			}
		}
		if npre >= 2 {
			vd.Trigger = true
		}
		if illegalAt >= 0 && !everActive {
			// the session must end
			if sv.EndT < 0 {
				vd.Add("C07", "C07/session-survives-illegal-packet/"+illegalWhat, "session %s: %s before connect did not end the session (client packets: %s)", sv.Name, illegalWhat, seqSig(seq))
			}
		}
	}
}

// ---------------------------------------------------------------------------------------------
// C08 / C09: the connect exchange

type exchange struct {
	connect   refsn.Pkt
	pkts      []refsn.Pkt // client packets of the exchange after CONNECT
	labels    []string
	mqConnect []refmqtt.Pkt
	mqAt      []int // number of client packets consumed when each MQTT CONNECT was written
	g2c       []refsn.Pkt
	g2cAt     []int
	connacks  []refmqtt.Pkt // broker CONNACKs delivered during this exchange
	g2cIdx    []int         // history index of each g2c packet
	connackIx []int         // history index of each broker CONNACK
}

func exchanges(sv *SessView) []*exchange {
	var out []*exchange
	var cur *exchange
	for _, e := range sv.Evs {
		switch e.Kind {
		case EvC2G:
			if e.SNErr != nil {
				continue
			}
			if e.SN.Type == refsn.CONNECT {
				nx := &exchange{connect: e.SN}
				// a broker CONNACK still on its way to the gateway when the next CONNECT (a duplicate,
				// a retransmission) is consumed is read — and relayed — inside the new exchange
				if cur != nil {
					if n := len(cur.connacksSent()); n < len(cur.connacks) {
						nx.connacks = append(nx.connacks, cur.connacks[n:]...)
						nx.connackIx = append(nx.connackIx, cur.connackIx[n:]...)
						cur.connacks, cur.connackIx = cur.connacks[:n], cur.connackIx[:n]
					}
				}
				cur = nx
				out = append(out, cur)
				continue
			}
			if cur != nil {
				switch e.SN.Type {
				case refsn.AUTH, refsn.WILLTOPIC, refsn.WILLMSG:
					cur.pkts = append(cur.pkts, e.SN)
					cur.labels = append(cur.labels, e.SN.Name())
				default:
					// any other packet ends the connect exchange (from the oracle's point of view)
					if len(cur.connacksSent()) > 0 {
						cur = nil
					}
				}
			}
		case EvG2B:
			if cur != nil && e.MQ.Type == refmqtt.CONNECT {
				cur.mqConnect = append(cur.mqConnect, e.MQ)
				cur.mqAt = append(cur.mqAt, len(cur.pkts))
			}
		case EvG2C:
			if cur != nil && e.SNErr == nil {
				cur.g2c = append(cur.g2c, e.SN)
				cur.g2cAt = append(cur.g2cAt, len(cur.pkts))
				cur.g2cIdx = append(cur.g2cIdx, e.Idx)
			}
		case EvB2G:
			if cur != nil && e.MQ.Type == refmqtt.CONNACK {
				cur.connacks = append(cur.connacks, e.MQ)
				cur.connackIx = append(cur.connackIx, e.Idx)
			}
		}
	}
	return out
}

func (x *exchange) connacksSent() []refsn.Pkt {
	var r []refsn.Pkt
	for _, p := range x.g2c {
		if p.Type == refsn.CONNACK {
			r = append(r, p)
		}
	}
	return r
}

func plainOK(data []byte) (user string, pass []byte, ok bool) {
	parts := bytes.Split(data, []byte{0})
	if len(parts) != 3 {
		return "", nil, false
	}
	return string(parts[1]), parts[2], true
}

func exLabel(x *exchange) string {
	s := "CONNECT"
	if x.connect.Will {
		s += "(will)"
	}
	l := x.labels
	if len(l) > 4 {
		l = l[:4]
	}
	if len(l) > 0 {
		s += "," + strings.Join(l, ",")
	}
	return s
}

func oracleC08(v *View, vd *Verdict) {
	cfg := &v.R.Plan.Cfg
	for _, sv := range v.Sess {
		for _, x := range exchanges(sv) {
			if x.connect.ProtocolID != 1 || x.connect.Duration == 0 {
				continue
			}
			if len(x.pkts) > 0 || len(x.mqConnect) > 0 {
				vd.Trigger = true
			}
			for k, mc := range x.mqConnect {
				upto := x.pkts[:x.mqAt[k]]
				if cfg.Auth {
					// the exchange must contain a well-formed PLAIN AUTH whose credentials this CONNECT
					// carries. (The gateway takes the AUTH that arrives in turn, right after CONNECT, and
					// ignores later ones — duplicates, retransmissions; which one it takes is its business
					// as long as the CONNECT carries the credentials of a well-formed one.)
					nauth, nplain, match := 0, 0, false
					var bad *refsn.Pkt
					var firstUser string
					for i := range upto {
						if upto[i].Type != refsn.AUTH {
							continue
						}
						nauth++
						if upto[i].AuthMethod != "PLAIN" {
							if bad == nil {
								bad = &upto[i]
							}
							continue
						}
						u, pw, ok := plainOK(upto[i].Data)
						if !ok {
							if bad == nil {
								bad = &upto[i]
							}
							continue
						}
						if nplain == 0 {
							firstUser = u
						}
						nplain++
						if mc.HasUser && mc.User == u && mc.HasPass && bytes.Equal(mc.Pass, pw) {
							match = true
						}
					}
					switch {
					case nauth == 0:
						via := "CONNECT"
						if len(upto) > 0 {
							via = upto[len(upto)-1].Name()
						}
						vd.Add("C08", "C08/connect-without-auth/via="+via, "session %s: auth enabled, MQTT %s written after [%s] without any AUTH", sv.Name, mc.String(), exLabel(x))
					case match:
					case nplain > 0:
						vd.Add("C08", "C08/credentials-differ-from-auth", "session %s: AUTH user %q, CONNECT %s user=%q", sv.Name, firstUser, mc.String(), mc.User)
					case bad.AuthMethod != "PLAIN":
						vd.Add("C08", "C08/connect-after-unknown-method", "session %s: MQTT CONNECT written after AUTH method %q", sv.Name, bad.AuthMethod)
					default:
						vd.Add("C08", "C08/connect-after-malformed-plain", "session %s: MQTT CONNECT written after malformed PLAIN data %x", sv.Name, bad.Data)
					}
				} else {
					wantUser := cfg.GwUser != nil
					okc := mc.HasUser == wantUser && mc.HasPass == cfg.GwHasPass
					if okc && wantUser && mc.User != *cfg.GwUser {
						okc = false
					}
					if okc && cfg.GwHasPass && !bytes.Equal(mc.Pass, cfg.GwPass) {
						okc = false
					}
					if !okc {
						hadAuth := "no-auth-packet"
						for _, p := range upto {
							if p.Type == refsn.AUTH {
								hadAuth = "after-auth-packet"
							}
						}
						vd.Add("C08", "C08/credentials-overridden/auth-off/"+hadAuth, "session %s: auth disabled, configured user=%v pass=%v, CONNECT carries %s user=%q", sv.Name, cfg.GwUser != nil, cfg.GwHasPass, mc.String(), mc.User)
					}
				}
			}
			// unknown method: CONNACK not-supported and no CONNECT afterwards
			if cfg.Auth {
				for i, p := range x.pkts {
					if p.Type != refsn.AUTH {
						continue
					}
					// only the AUTH that arrives in turn (the first of the exchange) is judged; later ones
					// are out of turn and ignored by the gateway
					if p.AuthMethod != "PLAIN" {
						got := false
						for k, r := range x.g2c {
							if x.g2cAt[k] >= i+1 && r.Type == refsn.CONNACK && r.RC == refsn.RCNotSupported {
								got = true
							}
						}
						if !got && sv.EndT < 0 {
							vd.Add("C08", "C08/unknown-method-not-refused", "session %s: AUTH method %q not answered with CONNACK(not supported)", sv.Name, p.AuthMethod)
						}
						for k := range x.mqConnect {
							if x.mqAt[k] >= i+1 {
								vd.Add("C08", "C08/connect-after-unknown-method", "session %s: MQTT CONNECT written after AUTH method %q", sv.Name, p.AuthMethod)
							}
						}
					}
					break
				}
			}
		}
	}
}

func oracleC09(v *View, vd *Verdict) {
	cfg := &v.R.Plan.Cfg
	for _, sv := range v.Sess {
		xs := exchanges(sv)
		for _, x := range xs {
			if x.connect.ProtocolID != 1 {
				continue
			}
			vd.Trigger = true
			lab := exLabel(x)
			if x.connect.Duration == 0 {
				// zero keep-alive: CONNACK not supported, no CONNECT
				ok := false
				for _, r := range x.connacksSent() {
					if r.RC == refsn.RCNotSupported {
						ok = true
					}
				}
				if !ok && sv.EndT < 0 {
					vd.Add("C09", "C09/zero-keepalive-not-refused", "session %s: CONNECT keep-alive 0 not answered with CONNACK(not supported)", sv.Name)
				}
				if len(x.mqConnect) > 0 {
					vd.Add("C09", "C09/zero-keepalive-forwarded", "session %s: CONNECT keep-alive 0 produced an MQTT CONNECT", sv.Name)
				}
				continue
			}
			for k := 1; k < len(x.mqConnect); k++ {
				via := "CONNECT"
				if at := x.mqAt[k]; at > 0 {
					via = x.pkts[at-1].Name()
				}
				vd.Add("C09", "C09/more-than-one-mqtt-connect/extra-via="+via, "session %s: %d MQTT CONNECTs for one client CONNECT [%s]", sv.Name, len(x.mqConnect), lab)
			}
			// positions of will packets
			firstWT, firstWM := -1, -1
			var wt, wm refsn.Pkt
			for i, p := range x.pkts {
				if p.Type == refsn.WILLTOPIC && firstWT < 0 {
					firstWT, wt = i, p
				}
				if p.Type == refsn.WILLMSG && firstWM < 0 {
					firstWM, wm = i, p
				}
			}
			for k, r := range x.g2c {
				at := x.g2cAt[k]
				switch r.Type {
				case refsn.WILLTOPICREQ:
					if !x.connect.Will {
						vd.Add("C09", "C09/willtopicreq-without-will-flag", "session %s [%s]", sv.Name, lab)
					}
				case refsn.WILLMSGREQ:
					if !x.connect.Will {
						vd.Add("C09", "C09/willmsgreq-without-will-flag", "session %s [%s]", sv.Name, lab)
					} else if firstWT < 0 || at <= firstWT {
						vd.Add("C09", "C09/willmsgreq-before-willtopic", "session %s [%s]", sv.Name, lab)
					}
				}
			}
			for k, mc := range x.mqConnect {
				at := x.mqAt[k]
				if x.connect.Will {
					// a WILLTOPIC and, after it, a WILLMSG must have been consumed before this CONNECT
					// (packets that arrive out of turn are ignored by a correct gateway, so any
					// WILLTOPIC ... WILLMSG subsequence qualifies)
					upto := x.pkts
					if at < len(upto) {
						upto = upto[:at]
					}
					wtAt, wmAt := -1, -1
					for i, p := range upto {
						if p.Type == refsn.WILLTOPIC && wtAt < 0 {
							wtAt = i
						}
						if p.Type == refsn.WILLMSG && wtAt >= 0 && wmAt < 0 {
							wmAt = i
						}
					}
					nEmpty, nFull := 0, 0
					for _, p := range upto {
						if p.Type == refsn.WILLTOPIC {
							if p.TopicName == "" {
								nEmpty++
							} else {
								nFull++
							}
						}
					}
					if nEmpty > 0 && nFull == 0 {
						// an empty WILLTOPIC means "no will" (MQTT-SN 5.4.7): the CONNECT follows at once, without a will
						if mc.HasWill {
							vd.Add("C09", "C09/will-after-empty-willtopic", "session %s: empty WILLTOPIC, yet the MQTT CONNECT carries a will [%s]", sv.Name, lab)
						}
						continue
					}
					if nEmpty > 0 && !mc.HasWill {
						continue // which of several WILLTOPICs was in turn is the gateway's business
					}
					hasWM := false
					for _, p := range upto {
						if p.Type == refsn.WILLMSG {
							hasWM = true
						}
					}
					last := "CONNECT"
					if len(upto) > 0 {
						last = upto[len(upto)-1].Name()
					}
					if !hasWM {
						vd.Add("C09", "C09/connect-before-willmsg/after="+last, "session %s: will flag set, MQTT CONNECT written after [%s] before any WILLMSG", sv.Name, lab)
						continue
					}
					if wtAt < 0 || wmAt < 0 {
						vd.Add("C09", "C09/connect-without-willtopic", "session %s: MQTT CONNECT written although no WILLTOPIC preceded a WILLMSG [%s]", sv.Name, lab)
						continue
					}
					// will data carried over: some consumed WILLTOPIC and some WILLMSG after the first WILLTOPIC
					okT, okM, untranslatable := false, false, false
					for i, p := range upto {
						if p.Type == refsn.WILLTOPIC {
							if p.TopicName == "" || p.QoS == 3 {
								untranslatable = true // C24's business
							}
							if mc.HasWill && mc.WillTopic == p.TopicName && mc.WillQoS == p.QoS && mc.WillRetain == p.Retain {
								okT = true
							}
						}
						if p.Type == refsn.WILLMSG && i > wtAt && bytes.Equal(mc.WillMsg, p.Data) {
							okM = true
						}
					}
					if untranslatable {
						continue
					}
					if !okT || !okM {
						wt, wm = upto[wtAt], upto[wmAt]
						vd.Add("C09", "C09/will-data-mismatch", "session %s: WILLTOPIC %s WILLMSG %x -> CONNECT will=%v topic=%q msg=%x qos=%d retain=%v", sv.Name, wt.String(), wm.Data, mc.HasWill, mc.WillTopic, mc.WillMsg, mc.WillQoS, mc.WillRetain)
					}
				} else {
					if mc.HasWill {
						vd.Add("C09", "C09/will-without-will-flag", "session %s: CONNECT without will flag produced MQTT CONNECT with a will [%s]", sv.Name, lab)
					}
				}
				if mc.ClientID != x.connect.ClientID || mc.KeepAlive != x.connect.Duration || mc.Clean != x.connect.Clean {
					vd.Add("C09", "C09/connect-fields-mismatch", "session %s: %s -> %s", sv.Name, x.connect.String(), mc.String())
				}
			}
			// CONNACK mapping
			// a CONNACK the gateway sent on its own account (a refusal) before the broker's CONNACK existed
			// is not the relay of that CONNACK: broker CONNACKs are matched with later CONNACKs only
			var acks []refsn.Pkt
			{
				k := 0
				for j, p := range x.g2c {
					if p.Type != refsn.CONNACK {
						continue
					}
					if k < len(x.connackIx) && x.g2cIdx[j] < x.connackIx[k] {
						continue
					}
					acks = append(acks, p)
					k++
				}
			}
			for i, bc := range x.connacks {
				if i >= len(acks) {
					if sv.EndT < 0 && cfg.HorizonMs > 0 {
						vd.Add("C09", "C09/broker-connack-not-relayed", "session %s: broker CONNACK rc=%d produced no MQTT-SN CONNACK [%s]", sv.Name, bc.RC, lab)
					}
					break
				}
				want := byte(refsn.RCAccepted)
				if bc.RC != 0 {
					want = refsn.RCCongestion
				}
				if acks[i].RC != want {
					vd.Add("C09", fmt.Sprintf("C09/connack-code/broker=%d,sent=%d", min(int(bc.RC), 1), acks[i].RC), "session %s: broker CONNACK rc=%d relayed as CONNACK rc=%d", sv.Name, bc.RC, acks[i].RC)
				}
			}
			if len(x.connacks) == 0 {
				for _, a := range acks {
					if a.RC == refsn.RCAccepted {
						vd.Add("C09", "C09/accepted-without-broker-connack", "session %s: CONNACK(accepted) although the broker sent no CONNACK in this exchange [%s]", sv.Name, lab)
					}
				}
			}
		}
	}
}

// ---------------------------------------------------------------------------------------------
// generators for C07/C08/C09

func authPkt(g *Gen, kind int) refsn.Pkt {
	switch kind {
	case 0:
		user, pw := "user"+fmt.Sprint(g.Intn(3)), []byte("pw"+fmt.Sprint(g.Intn(3)))
		switch g.Intn(8) {
		case 0:
			pw = []byte{} // well-formed PLAIN with an empty password
		case 1:
			user = "gwuser" // the gateway's own user name (when it has one), wrong or empty password
			if g.Bool(0.5) {
				pw = []byte{}
			}
		}
		return refsn.Pkt{Type: refsn.AUTH, AuthMethod: "PLAIN", Data: refsn.PlainAuth(user, pw)}
	case 1:
		return refsn.Pkt{Type: refsn.AUTH, AuthMethod: "PLAIN", Data: []byte("no-nul-at-all")}
	case 2:
		return refsn.Pkt{Type: refsn.AUTH, AuthMethod: "SCRAM-SHA-1", Data: []byte("x")}
	case 3:
		return refsn.Pkt{Type: refsn.AUTH, AuthMethod: "", Data: []byte{0, 'u', 0, 'p'}}
	default:
		return refsn.Pkt{Type: refsn.AUTH, AuthMethod: "PLAIN", Data: []byte{0, 'u', 0, 'p', 0, 'x'}}
	}
}

// connectSeq enumerates/samples packet sequences of a connect exchange.
func genConnectExchange(g *Gen, tag string, prop string) *Plan {
	cfg := g.BaseCfg()
	cfg.Sched = g.Sched("gateway/connect_transaction.go", "gateway/handler1.go")
	cfg.Auth = g.Bool(0.5)
	switch g.Intn(4) {
	case 1:
		u := "gwuser"
		cfg.GwUser = &u
	case 2:
		u := "gwuser"
		cfg.GwUser = &u
		cfg.GwHasPass, cfg.GwPass = true, []byte("gwpass")
	case 3:
		cfg.GwHasPass, cfg.GwPass = true, []byte("onlypass")
	}
	p := &Plan{Family: tag, Cfg: cfg}
	sg := &sessGen{g: g, cid: "c1"}
	nex := 1
	if g.Bool(0.25) {
		nex = 2
	}
	for x := 0; x < nex; x++ {
		sg.gap(5, 400)
		will := g.Bool(0.5)
		ka := uint16(g.Range(5, 100))
		if g.Bool(0.07) {
			ka = 0
		}
		sg.add(connectPkt("c1", ka, will, g.Bool(0.5)))
		n := int(g.Range(0, 4))
		for i := 0; i < n; i++ {
			sg.gap(20, 400)
			switch g.Intn(6) {
			case 0, 1:
				k := 0
				if g.Bool(0.4) {
					k = g.Intn(5)
				}
				sg.add(authPkt(g, k))
			case 2, 3:
				wt := refsn.Pkt{Type: refsn.WILLTOPIC, TopicName: []string{"will/t", "w", "will/a/b", "will/of/a/client/with/a/long/topic/name/0123456789"}[g.Intn(4)], QoS: uint8(g.Intn(3)), Retain: g.Bool(0.3), Will: true}
				if g.Bool(0.25) {
					wt.TopicName, wt.Will = "", false // "no will after all"
				}
				if g.Bool(0.05) {
					wt.QoS = 3
				}
				sg.add(wt)
			default:
				wm := []byte(fmt.Sprintf("willmsg%d", g.Intn(5)))
				if g.Bool(0.3) {
					wm = serialPayload("willmsg", g.Intn(5), int(g.Range(10, 200))) // longer than any earlier packet of the exchange
				}
				sg.add(refsn.Pkt{Type: refsn.WILLMSG, Data: wm})
			}
		}
		if n > 0 && g.Bool(0.3) {
			// a retransmission: one of the packets of this exchange once more
			sg.gap(20, 400)
			sg.add(sg.ops[len(sg.ops)-1-g.Intn(n)].Pkt)
		}
		sg.gap(300, 1200)
	}
	// the peer answers WILL*REQ itself in half of the runs (then scripted will packets are extra)
	pol := PeerPolicy{Will: "ignore"}
	if g.Bool(0.5) {
		pol = PeerPolicy{WillTopic: "auto/will", WillMsg: []byte("autowill"), WillQoS: uint8(g.Intn(3)), WillRetain: g.Bool(0.3)}
		if g.Bool(0.4) {
			pol.WillTopic, pol.WillMsg = "auto/will/with/a/long/topic/name/0123456789", serialPayload("autowill", 0, int(g.Range(10, 120)))
		} else if g.Bool(0.3) {
			pol.WillTopic = "" // answers WILLTOPICREQ with the empty WILLTOPIC: no will after all
		}
	}
	if g.Bool(0.3) {
		sg.add(refsn.Pkt{Type: refsn.PUBLISH, TIT: refsn.TITShort, TopicID: refsn.ShortID("ab"), QoS: 0, Data: []byte("after")})
		sg.gap(100, 500)
	}
	pol.NoWait = true // out-of-turn packets on purpose
	p.Peers = []PeerPlan{{Name: "p1", Ops: sg.ops, Policy: pol}}
	rcs := []byte{0, 0, 0, 1, 2, 3, 4, 5}
	p.Broker.ConnackRC = rcs[g.Intn(len(rcs))]
	if nex == 2 && g.Bool(0.5) {
		// the first attempt is refused by the broker, the second is not: what a refusal leaves behind
		// (in the session, or in what all sessions share) must not show in the second CONNECT
		p.Broker.ConnackRCs = []byte{byte(g.Range(1, 5)), 0, 0, 0}
	}
	if g.Bool(0.3) {
		// a slow broker: the packets that follow the complete exchange arrive while its CONNACK is
		// still missing (duplicates and stragglers of the exchange must not restart or repeat anything)
		p.Broker.AnswerDelayMs = g.Range(300, 3000)
	}
	if g.Bool(0.25) {
		p.Cfg.SN.Dup = 0.1 + g.Float()*0.3
	}
	p.Cfg.HorizonMs = sg.t + 7000 + p.Broker.AnswerDelayMs
	return p
}

// preConnectKA: keep-alives of a second or two as well: whatever the gateway does "every half keep-alive"
// then happens between the packets of the sequence
func preConnectKA(g *Gen) uint16 {
	if g.Bool(0.35) {
		return uint16(g.Range(1, 2))
	}
	return uint16(g.Range(5, 60))
}

// preConnectTypes: what a raw peer may send before any successful connect (C07).
func preConnectPkt(g *Gen, k int) refsn.Pkt {
	mid := uint16(g.Range(1, 9))
	switch k {
	case 0:
		return connectPkt("c1", preConnectKA(g), false, true)
	case 1:
		return connectPkt("c1", preConnectKA(g), true, true)
	case 2:
		return authPkt(g, 0)
	case 3:
		return refsn.Pkt{Type: refsn.WILLTOPIC, TopicName: "w/t", Will: true}
	case 4:
		return refsn.Pkt{Type: refsn.WILLMSG, Data: []byte("wm")}
	case 5:
		return refsn.Pkt{Type: refsn.DISCONNECT}
	case 6:
		return refsn.Pkt{Type: refsn.DISCONNECT, HasDur: true, Duration: uint16(g.Range(1, 30))}
	case 7:
		return refsn.Pkt{Type: refsn.PINGREQ}
	case 8:
		return refsn.Pkt{Type: refsn.PINGREQ, Data: []byte("c1")}
	case 9:
		return refsn.Pkt{Type: refsn.REGISTER, MsgID: mid, TopicName: "t/a"}
	case 10:
		return refsn.Pkt{Type: refsn.PUBLISH, TIT: refsn.TITShort, TopicID: refsn.ShortID("ab"), QoS: 3, Data: []byte("q-1")}
	case 11:
		return refsn.Pkt{Type: refsn.PUBLISH, TIT: refsn.TITPredefined, TopicID: uint16(g.Range(1, 6)), QoS: 3, Data: []byte("q-1p")}
	case 12:
		return refsn.Pkt{Type: refsn.PUBLISH, TIT: refsn.TITShort, TopicID: refsn.ShortID("ab"), QoS: uint8(g.Intn(3)), MsgID: mid, Data: []byte("pub")}
	case 13:
		return refsn.Pkt{Type: refsn.PUBLISH, TIT: refsn.TITNormal, TopicID: 1, QoS: 3, Data: []byte("q-1r")}
	case 14:
		return refsn.Pkt{Type: refsn.SUBSCRIBE, MsgID: mid, TIT: refsn.TITNormal, TopicName: "t/#", QoS: 1}
	case 15:
		return refsn.Pkt{Type: refsn.UNSUBSCRIBE, MsgID: mid, TIT: refsn.TITShort, TopicID: refsn.ShortID("ab")}
	case 16:
		return refsn.Pkt{Type: refsn.PUBREL, MsgID: mid}
	case 17:
		return refsn.Pkt{Type: refsn.PUBACK, MsgID: mid, TopicID: 1}
	case 18:
		return refsn.Pkt{Type: refsn.PUBREC, MsgID: mid}
	case 19:
		return refsn.Pkt{Type: refsn.PUBCOMP, MsgID: mid}
	case 20:
		return refsn.Pkt{Type: refsn.REGACK, MsgID: mid, TopicID: 1}
	case 21:
		return refsn.Pkt{Type: refsn.WILLTOPICUPD, TopicName: "w/u", Will: true}
	case 22:
		return refsn.Pkt{Type: refsn.WILLMSGUPD, Data: []byte("u")}
	case 23:
		return refsn.Pkt{Type: refsn.SEARCHGW, Radius: 1}
	case 24:
		return refsn.Pkt{Type: refsn.CONNACK}
	case 25:
		return refsn.Pkt{Type: refsn.SUBACK, MsgID: mid}
	default:
		return refsn.Pkt{Type: refsn.PINGRESP}
	}
}

const nPreConnect = 27

func genC07(g *Gen, idx int) *Plan {
	cfg := g.BaseCfg()
	cfg.Sched = g.Sched("gateway/handler1.go", "gateway/connect_transaction.go")
	cfg.Auth = g.Bool(0.4)
	cfg.Predefined = g.Predef([]string{"c1"})
	p := &Plan{Family: "C07-preconnect", Cfg: cfg}
	sg := &sessGen{g: g, cid: "c1"}
	n := int(g.Range(1, 5))
	open := idx%4 == 3
	if open {
		// a connect exchange carried to the point where only the broker's CONNACK is missing (slow or
		// silent broker), then packets that are legal only in an accepted session
		p.Family = "C07-open-exchange"
		will := g.Bool(0.4)
		sg.gap(50, 500)
		sg.add(connectPkt("c1", preConnectKA(g), will, true))
		if cfg.Auth && g.Bool(0.85) {
			sg.gap(20, 300)
			sg.add(authPkt(g, 0))
		}
		if will {
			sg.gap(20, 300)
			sg.add(refsn.Pkt{Type: refsn.WILLTOPIC, TopicName: "w/t", Will: true})
			sg.gap(20, 300)
			sg.add(refsn.Pkt{Type: refsn.WILLMSG, Data: []byte("wm")})
		}
		n = int(g.Range(1, 3))
	}
	for i := 0; i < n; i++ {
		sg.gap(50, 1500)
		k := g.Intn(nPreConnect)
		if open && g.Bool(0.7) {
			k = []int{10, 11, 12, 13, 9, 14, 7}[g.Intn(7)]
		}
		sg.add(preConnectPkt(g, k))
	}
	// finally a probe publish: if the session believes it is active this reaches the broker
	sg.gap(400, 1500)
	sg.add(refsn.Pkt{Type: refsn.PUBLISH, TIT: refsn.TITShort, TopicID: refsn.ShortID("zz"), QoS: 0, Data: []byte("probe")})
	p.Peers = []PeerPlan{{Name: "p1", Ops: sg.ops, Policy: PeerPolicy{WillTopic: "w/t", WillMsg: []byte("bye"), NoWait: true}}}
	if g.Bool(0.2) {
		p.Broker.ConnackRC = byte(g.Range(1, 5))
	}
	bk := g.Intn(5)
	if open {
		bk = g.Intn(2)
	}
	switch bk {
	case 0:
		// a slow broker: the connect exchange stays open while the following packets arrive
		p.Broker.AnswerDelayMs = g.Range(800, 6000)
		if open {
			p.Broker.AnswerDelayMs = g.Range(3000, 6000)
		}
	case 1:
		p.Broker.SilentTypes = []string{"CONNECT"}
	}
	p.Cfg.HorizonMs = sg.t + 7000 + p.Broker.AnswerDelayMs
	return p
}

// enumC07: every sequence of pre-connect packets up to length 3 (quick) over a reduced alphabet,
// auth on and off. Indices beyond the enumeration fall back to random generation.
func enumC07(tier string, idx int) *Plan {
	alpha := []int{0, 1, 2, 3, 4, 5, 6, 7, 9, 10, 12, 14, 16, 20}
	L := 3
	total := 0
	counts := []int{}
	for l := 1; l <= L; l++ {
		c := 1
		for i := 0; i < l; i++ {
			c *= len(alpha)
		}
		counts = append(counts, c)
		total += c
	}
	total *= 2
	limit := 600
	if tier == "thorough" {
		limit = total
	}
	if idx >= limit || idx >= total {
		return nil
	}
	// spread quick-tier indices over the whole space
	k := idx
	if tier != "thorough" {
		k = int(uint64(idx) * 2654435761 % uint64(total))
	}
	auth := k%2 == 1
	k /= 2
	l := 1
	for k >= counts[l-1] {
		k -= counts[l-1]
		l++
	}
	g := &Gen{Rng: newRng(uint64(idx) + 77), Tier: tier}
	cfg := g.BaseCfg()
	cfg.Auth = auth
	cfg.Sched = g.Sched()
	cfg.Predefined = map[string]map[uint16]string{"*": {3: "pre/3"}}
	p := &Plan{Family: "C07-enum", Cfg: cfg}
	sg := &sessGen{g: g, cid: "c1"}
	for i := 0; i < l; i++ {
		sg.gap(300, 900)
		sg.add(preConnectPkt(g, alpha[k%len(alpha)]))
		k /= len(alpha)
	}
	sg.gap(600, 1200)
	sg.add(refsn.Pkt{Type: refsn.PUBLISH, TIT: refsn.TITShort, TopicID: refsn.ShortID("zz"), QoS: 0, Data: []byte("probe")})
	p.Peers = []PeerPlan{{Name: "p1", Ops: sg.ops, Policy: PeerPolicy{WillTopic: "w/t", WillMsg: []byte("bye"), NoWait: true}}}
	p.Cfg.HorizonMs = sg.t + 7000
	return p
}

func init() {
	Register(&Check{ID: "C07", Level: "fault_enumeration",
		Rule:   "every sequence of up to 3 pre-connect client packets over a 14-symbol alphabet (CONNECT +-will, AUTH, WILLTOPIC, WILLMSG, DISCONNECT +-duration, PINGREQ, REGISTER, PUBLISH QoS -1/0-2, SUBSCRIBE, PUBREL, REGACK) x auth on/off (quick: a 600-sequence spread of the 5,908; thorough: all), followed by random longer sequences over 27 packet kinds (a fifth of them with a slow or CONNECT-silent broker) and, every fourth, a connect exchange complete up to the broker's CONNACK (slow/silent broker) followed by packets legal only in an accepted session; a probe PUBLISH closes each sequence; non-trivial = >= 2 packets consumed before any accepted connect",
		Enum:   enumC07, Gen: genC07, Oracle: oracleC07, Quick: 3000, Thorough: 120000})
	Register(&Check{ID: "C08", Level: "exploration",
		Rule:   "random connect exchanges: CONNECT (+-will, keep-alive incl. 0) followed by 0-4 of AUTH (PLAIN well-formed / malformed / other method / empty method), WILLTOPIC, WILLMSG in any order, repeated exchanges, gateway credentials {none,user,user+password,password only}, auth on/off, broker CONNACK codes 0-5, the broker's answer delayed by 0.3-3 s in 30 % and datagram duplication in 25 % of the runs; non-trivial = exchange with at least one follow-up packet or an MQTT CONNECT",
		Gen:    func(g *Gen, idx int) *Plan { return genConnectExchange(g, "C08-exchange", "C08") }, Oracle: oracleC08, Quick: 2000, Thorough: 160000})
	Register(&Check{ID: "C09", Level: "exploration",
		Rule:   "same exchange generator as C08; oracle: WILLTOPICREQ/WILLMSGREQ/CONNECT ordering, will data carried over, at most one MQTT CONNECT per client CONNECT, CONNACK code mapping (accepted iff broker accepted, else congestion; not supported for keep-alive 0); non-trivial = any connect exchange",
		Gen:    func(g *Gen, idx int) *Plan { return genConnectExchange(g, "C09-exchange", "C09") }, Oracle: oracleC09, Quick: 2000, Thorough: 160000})
}
