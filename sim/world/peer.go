package world

import (
	"fmt"
	"time"

	"verifsim/refsn"
	"verifsim/simrt"
)

// rawPeer is a scripted MQTT-SN client. It runs entirely in the driver.
type rawPeer struct {
	s      *Sim
	plan   *PeerPlan
	link   *snLink
	silent bool
	// the peer's own knowledge, exactly as a client would keep it
	regs    map[uint16]string // topic id -> name (REGISTERs it accepted, SUBACK/REGACK ids for its own requests)
	pendSub map[uint16]refsn.Pkt
	pendReg map[uint16]string
	qos2    map[uint16]bool
	lastTx  time.Duration
	active  bool
	kaGen   int
	// script pacing
	shift    time.Duration // how much the script has been held back so far
	awaiting byte          // reply type a conforming client would wait for before going on (0 = none)
	awaitTil time.Duration
	polls    int
	ownPub   map[uint16]refsn.Pkt // own QoS 1 publishes awaiting PUBACK
	reused   int
}

// scheduleOp arms op j at its planned time plus the accumulated shift.
func (p *rawPeer) scheduleOp(j int) {
	if j >= len(p.plan.Ops) {
		return
	}
	w := p.s.W
	at := ms(p.plan.Ops[j].AtMs) + p.shift
	if at < w.Now() {
		at = w.Now()
	}
	w.At(at, fmt.Sprintf("peerop:%s:%05d", p.plan.Name, j), func() { p.runOp(j) })
}

func (p *rawPeer) runOp(j int) {
	w := p.s.W
	op := p.plan.Ops[j]
	if p.awaiting != 0 && !op.NoWait && !p.plan.Policy.NoWait && w.Now() < p.awaitTil && !p.isSilent() {
		// hold the script: poll once per millisecond (odd offset: never ties with code timers)
		p.polls++
		p.shift += time.Millisecond
		w.At(w.Now()+time.Millisecond, fmt.Sprintf("peerop:%s:%05d:hold%06d", p.plan.Name, j, p.polls), func() { p.runOp(j) })
		return
	}
	p.awaiting = 0
	p.send(op.Pkt, "op")
	p.scheduleOp(j + 1)
}

func (s *Sim) newRawPeer(i int, pp *PeerPlan) *rawPeer {
	p := &rawPeer{s: s, plan: pp, regs: map[uint16]string{}, pendSub: map[uint16]refsn.Pkt{}, pendReg: map[uint16]string{}, qos2: map[uint16]bool{}}
	p.link = &snLink{s: s, name: pp.Name, addr: simrt.Addr{Net: "udp", S: fmt.Sprintf("10.0.0.%d:5000", i+1)}, ruleHits: map[int]int{}}
	p.link.onRecv = p.recv
	return p
}

func (p *rawPeer) isSilent() bool {
	if p.silent {
		return true
	}
	if p.plan.Policy.SilentAtMs > 0 && p.s.W.Now() >= time.Duration(p.plan.Policy.SilentAtMs)*time.Millisecond {
		p.silent = true
	}
	return p.silent
}

func (p *rawPeer) send(pk refsn.Pkt, why string) {
	if p.isSilent() {
		return
	}
	b := pk.Encode()
	p.s.W.Log("peer:"+p.plan.Name+">", "tx", b, why+" "+pk.String(), int64(pk.Type))
	p.lastTx = p.s.W.Now()
	switch pk.Type {
	case refsn.SUBSCRIBE:
		p.pendSub[pk.MsgID] = pk
	case refsn.REGISTER:
		p.pendReg[pk.MsgID] = pk.TopicName
	case refsn.DISCONNECT:
		p.active = false
	case refsn.PUBLISH:
		if pk.QoS == 1 && pk.Raw == nil {
			if p.ownPub == nil {
				p.ownPub = map[uint16]refsn.Pkt{}
			}
			p.ownPub[pk.MsgID] = pk
		}
	}
	if why == "op" && pk.Raw == nil {
		switch {
		case pk.Type == refsn.CONNECT && pk.ProtocolID == 1:
			p.awaiting = refsn.CONNACK
		case pk.Type == refsn.DISCONNECT && pk.HasDur && pk.Duration > 0:
			p.awaiting = refsn.DISCONNECT
		case pk.Type == refsn.PINGREQ && len(pk.Data) > 0:
			p.awaiting = refsn.PINGRESP
		}
		p.awaitTil = p.s.W.Now() + 20*time.Second
	}
	p.link.c2g(b)
	p.armKA()
}

func (p *rawPeer) armKA() {
	ka := p.plan.Policy.KeepAliveMs
	if ka <= 0 {
		return
	}
	p.kaGen++
	gen := p.kaGen
	p.s.W.After(time.Duration(ka)*time.Millisecond, fmt.Sprintf("peerka:%s:%d", p.plan.Name, gen), func() {
		if p.kaGen == gen && p.active && !p.isSilent() {
			p.send(refsn.Pkt{Type: refsn.PINGREQ}, "keepalive")
		}
	})
}

func (p *rawPeer) recv(b []byte) {
	w := p.s.W
	pk, err := refsn.Decode(b)
	desc := pk.String()
	if err != nil {
		desc = "UNDECODABLE: " + err.Error()
	}
	w.Log("peer:"+p.plan.Name+"<", "rx", b, desc, int64(pk.Type))
	if err != nil || p.isSilent() {
		return
	}
	if pk.Type == p.awaiting {
		p.awaiting = 0
	}
	pol := &p.plan.Policy
	switch pk.Type {
	case refsn.CONNACK:
		if pk.RC == refsn.RCAccepted {
			p.active = true
			p.armKA()
		}
	case refsn.WILLTOPICREQ:
		if pol.Will != "ignore" {
			p.send(refsn.Pkt{Type: refsn.WILLTOPIC, TopicName: pol.WillTopic, QoS: pol.WillQoS, Retain: pol.WillRetain, Will: pol.WillTopic != ""}, "auto")
		}
	case refsn.WILLMSGREQ:
		if pol.Will != "ignore" {
			p.send(refsn.Pkt{Type: refsn.WILLMSG, Data: pol.WillMsg}, "auto")
		}
	case refsn.REGISTER:
		switch pol.Register {
		case "ignore":
		case "reject":
			p.send(refsn.Pkt{Type: refsn.REGACK, TopicID: pk.TopicID, MsgID: pk.MsgID, RC: refsn.RCInvalidTopic}, "auto")
		default:
			ackID := pk.TopicID
			if pol.Register == "accept-stale-id" {
				// a sloppy client: its REGACK carries the lowest id it has learnt before (what a
				// stale duplicate of an older REGACK looks like), or id+1 when it knows none
				ackID = pk.TopicID + 1
				for id := range p.regs {
					if id != pk.TopicID && (ackID == pk.TopicID+1 || id < ackID) {
						ackID = id
					}
				}
			}
			p.regs[pk.TopicID] = pk.TopicName
			w.Log("peer:"+p.plan.Name, "learn", nil, fmt.Sprintf("%d=%s via REGISTER", pk.TopicID, pk.TopicName), int64(pk.TopicID))
			p.send(refsn.Pkt{Type: refsn.REGACK, TopicID: ackID, MsgID: pk.MsgID, RC: refsn.RCAccepted}, "auto")
		}
	case refsn.REGACK:
		if name, ok := p.pendReg[pk.MsgID]; ok && pk.RC == refsn.RCAccepted {
			p.regs[pk.TopicID] = name
			w.Log("peer:"+p.plan.Name, "learn", nil, fmt.Sprintf("%d=%s via REGACK", pk.TopicID, name), int64(pk.TopicID))
			delete(p.pendReg, pk.MsgID)
		}
	case refsn.SUBACK:
		if sub, ok := p.pendSub[pk.MsgID]; ok {
			if pk.RC == refsn.RCAccepted && sub.TIT == refsn.TITNormal && pk.TopicID != 0 {
				p.regs[pk.TopicID] = sub.TopicName
				w.Log("peer:"+p.plan.Name, "learn", nil, fmt.Sprintf("%d=%s via SUBACK", pk.TopicID, sub.TopicName), int64(pk.TopicID))
			}
			delete(p.pendSub, pk.MsgID)
		}
	case refsn.PUBLISH:
		switch pk.QoS {
		case 1:
			switch pol.Puback {
			case "ignore":
			case "reject":
				p.send(refsn.Pkt{Type: refsn.PUBACK, TopicID: pk.TopicID, MsgID: pk.MsgID, RC: refsn.RCInvalidTopic}, "auto")
			default:
				p.send(refsn.Pkt{Type: refsn.PUBACK, TopicID: pk.TopicID, MsgID: pk.MsgID, RC: refsn.RCAccepted}, "auto")
			}
		case 2:
			if pol.QoS2 != "ignore" {
				p.qos2[pk.MsgID] = true
				p.send(refsn.Pkt{Type: refsn.PUBREC, MsgID: pk.MsgID}, "auto")
			}
		}
	case refsn.PUBREL:
		if pol.QoS2 != "ignore" && pol.QoS2 != "norel" {
			delete(p.qos2, pk.MsgID)
			p.send(refsn.Pkt{Type: refsn.PUBCOMP, MsgID: pk.MsgID}, "auto")
		}
	case refsn.PUBACK:
		if orig, ok := p.ownPub[pk.MsgID]; ok {
			delete(p.ownPub, pk.MsgID)
			if p.reused < pol.ReuseID {
				// the id is free again: use it at once
				p.reused++
				orig.Data = []byte(fmt.Sprintf("reuse%d", p.reused))
				orig.Dup = false
				p.send(orig, "reuse-id")
			}
		}
	case refsn.PUBREC:
		// our own QoS 2 publish: continue with PUBREL
		p.send(refsn.Pkt{Type: refsn.PUBREL, MsgID: pk.MsgID}, "auto")
	case refsn.DISCONNECT:
		p.active = false
	}
}

// ---------------------------------------------------------------------------------------------

// sgw is a scripted MQTT-SN gateway that real client libraries dial (CL engine). Driver only.
type sgw struct {
	s       *Sim
	plan    *SGWPlan
	hits    map[string]int
	nextTID uint16
	names   map[string]uint16
	silent  bool
	first   *snLink
	regSeq  uint16
}

func (s *Sim) newSGW(pl *SGWPlan) *sgw {
	g := &sgw{s: s, plan: pl, hits: map[string]int{}, nextTID: pl.FirstTopicID, names: map[string]uint16{}}
	if g.nextTID == 0 {
		g.nextTID = 1
	}
	return g
}

func (g *sgw) isSilent() bool {
	if !g.silent && g.plan.SilentAtMs > 0 && g.s.W.Now() >= time.Duration(g.plan.SilentAtMs)*time.Millisecond {
		g.silent = true
	}
	return g.silent
}

func (g *sgw) send(l *snLink, pk refsn.Pkt, why string) {
	if g.isSilent() {
		return
	}
	if pk.Type == refsn.REGISTER && pk.Raw == nil {
		// stay consistent with ids handed out later for the same name (SUBACK/REGACK)
		if _, ok := g.names[pk.TopicName]; !ok {
			g.names[pk.TopicName] = pk.TopicID
		}
	}
	b := pk.Encode()
	g.s.W.Log("sgw:"+l.name+">", "tx", b, why+" "+pk.String(), int64(pk.Type))
	l.g2c(b)
}

// sendOp sends a scripted packet. A PUBLISH with a topic name (symbolic) is resolved to the id this
// gateway has for the name, registering it with the client first when the name is new.
func (g *sgw) sendOp(l *snLink, pk refsn.Pkt) {
	if pk.Type == refsn.PUBLISH && pk.TopicName != "" && pk.TIT == refsn.TITNormal && pk.Raw == nil {
		name := pk.TopicName
		id, known := g.names[name]
		if !known {
			id = g.tid(name)
			g.regSeq++
			g.send(l, refsn.Pkt{Type: refsn.REGISTER, TopicID: id, MsgID: 0x4000 + g.regSeq, TopicName: name}, "op-register")
		}
		pk.TopicID, pk.TopicName = id, ""
	}
	g.send(l, pk, "op")
}

func (g *sgw) tid(name string) uint16 {
	if id, ok := g.names[name]; ok {
		return id
	}
	id := g.nextTID
	g.nextTID++
	g.names[name] = id
	return id
}

func (g *sgw) recv(l *snLink, b []byte) {
	if g.first == nil {
		g.first = l
	}
	w := g.s.W
	pk, err := refsn.Decode(b)
	desc := pk.String()
	if err != nil {
		desc = "UNDECODABLE: " + err.Error()
	}
	w.Log("sgw:"+l.name+"<", "rx", b, desc, int64(pk.Type))
	if err != nil || g.isSilent() {
		return
	}
	n := g.hits[pk.Name()]
	g.hits[pk.Name()] = n + 1
	act := "default"
	var reply []refsn.Pkt
	copyID := false
	for _, r := range g.plan.Rules {
		if r.On != pk.Name() {
			continue
		}
		if n < r.Skip || (r.Count > 0 && n >= r.Skip+r.Count) {
			continue
		}
		act, reply, copyID = r.Act, r.Reply, r.CopyID
		break
	}
	if act == "ignore" {
		g.s.fault("sgw-ignore")
		return
	}
	if act == "default" || act == "also" {
		g.defaultReply(l, pk)
	}
	if act == "reply" || act == "also" {
		for _, rp := range reply {
			if copyID {
				rp.MsgID = pk.MsgID
			}
			g.send(l, rp, "rule")
		}
	}
}

func (g *sgw) defaultReply(l *snLink, pk refsn.Pkt) {
	switch pk.Type {
	case refsn.CONNECT:
		if pk.Will {
			g.send(l, refsn.Pkt{Type: refsn.WILLTOPICREQ}, "auto")
		} else {
			g.send(l, refsn.Pkt{Type: refsn.CONNACK, RC: g.plan.ConnackRC}, "auto")
		}
	case refsn.WILLTOPIC:
		g.send(l, refsn.Pkt{Type: refsn.WILLMSGREQ}, "auto")
	case refsn.WILLMSG:
		g.send(l, refsn.Pkt{Type: refsn.CONNACK, RC: g.plan.ConnackRC}, "auto")
	case refsn.REGISTER:
		g.send(l, refsn.Pkt{Type: refsn.REGACK, TopicID: g.tid(pk.TopicName), MsgID: pk.MsgID, RC: refsn.RCAccepted}, "auto")
	case refsn.PUBLISH:
		switch pk.QoS {
		case 1:
			g.send(l, refsn.Pkt{Type: refsn.PUBACK, TopicID: pk.TopicID, MsgID: pk.MsgID, RC: refsn.RCAccepted}, "auto")
		case 2:
			g.send(l, refsn.Pkt{Type: refsn.PUBREC, MsgID: pk.MsgID}, "auto")
		}
	case refsn.PUBREL:
		g.send(l, refsn.Pkt{Type: refsn.PUBCOMP, MsgID: pk.MsgID}, "auto")
	case refsn.PUBREC:
		g.send(l, refsn.Pkt{Type: refsn.PUBREL, MsgID: pk.MsgID}, "auto")
	case refsn.SUBSCRIBE:
		var id uint16
		switch pk.TIT {
		case refsn.TITNormal:
			if !hasWild(pk.TopicName) {
				id = g.tid(pk.TopicName)
			}
		case refsn.TITPredefined:
			id = pk.TopicID
		}
		g.send(l, refsn.Pkt{Type: refsn.SUBACK, TopicID: id, MsgID: pk.MsgID, QoS: pk.QoS, RC: g.plan.SubackRC}, "auto")
	case refsn.UNSUBSCRIBE:
		g.send(l, refsn.Pkt{Type: refsn.UNSUBACK, MsgID: pk.MsgID}, "auto")
	case refsn.PINGREQ:
		g.send(l, refsn.Pkt{Type: refsn.PINGRESP}, "auto")
	case refsn.DISCONNECT:
		g.send(l, refsn.Pkt{Type: refsn.DISCONNECT}, "auto")
	}
}

func hasWild(s string) bool {
	for i := 0; i < len(s); i++ {
		if s[i] == '+' || s[i] == '#' {
			return true
		}
	}
	return false
}
