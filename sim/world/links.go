package world

import (
	"context"
	"errors"
	"fmt"
	"net"
	"time"

	"verifsim/refsn"
	"verifsim/simrt"
)

const gwAddr = "127.0.0.1:1883"

// endpoint is the client side of an MQTT-SN association: a raw peer (harness callbacks) or a
// real client library (simrt.Conn).
type snLink struct {
	s     *Sim
	name  string // peer / client name
	addr  simrt.Addr
	preListen int      // polls while the gateway had not started listening yet
	held      [][]byte // datagrams held meanwhile (in order)
	epoch int
	gw    *simrt.Conn // gateway-side conn of the current session (nil before first datagram)
	// client side: exactly one of these
	clConn *simrt.Conn
	onRecv func(b []byte) // raw peer: runs in the driver
	// scripted gateway instead of the real one
	sgw *sgw

	ruleHits     map[int]int // rule index -> matches seen
	lastDlvC2G   time.Duration
	lastDlvG2C   time.Duration
}

func (l *snLink) sessName() string { return fmt.Sprintf("%s#%d", l.name, l.epoch) }

// decide computes the fate of datagram #i in direction dir: returns delivery delays (one per
// copy; empty = dropped) and possibly mutated bytes. Everything is keyed by (link, dir, i).
func (l *snLink) decide(dir string, i int, b []byte) (delays []time.Duration, out []byte) {
	s := l.s
	w := s.W
	pf := &s.Plan.Cfg.SN
	now := w.Now()
	out = b
	s.mu.Lock()
	defer s.mu.Unlock()
	lat := func(k int) time.Duration {
		span := pf.MaxLatUs - pf.MinLatUs
		d := time.Duration(pf.MinLatUs)*time.Microsecond + time.Duration(w.Keyed("lat", l.name, dir, i, k)*float64(span)*1000)
		if pf.TailProb > 0 && w.Keyed("tail", l.name, dir, i, k) < pf.TailProb {
			d += time.Duration(w.Keyed("tailv", l.name, dir, i, k) * float64(pf.TailMaxMs) * 1e6)
		}
		return d
	}
	class := ""
	if p, err := refsn.Decode(b); err == nil {
		class = p.Name()
	}
	// partitions
	nowMs := int64(now / time.Millisecond)
	for _, win := range pf.Partitions {
		if nowMs >= win.FromMs && nowMs < win.ToMs && (win.Dir == "" || win.Dir == dir) && (win.Link == "" || win.Link == l.name) {
			s.fault("partition-drop")
			w.Log("link:"+l.name+":"+dir, "drop", b, "partition", int64(i))
			return nil, out
		}
	}
	extra := time.Duration(0)
	copies := 1
	for ri, r := range pf.Rules {
		if r.Dir != dir || (r.Link != "" && r.Link != l.name) || (r.Class != "" && r.Class != class) {
			continue
		}
		if r.Act == "werr" {
			continue // decided when the write was attempted (werr)
		}
		n := l.ruleHits[ri]
		l.ruleHits[ri] = n + 1
		if n < r.Skip || n >= r.Skip+r.Count {
			continue
		}
		switch r.Act {
		case "drop":
			s.fault("planned-drop")
			w.Log("link:"+l.name+":"+dir, "drop", b, "rule "+class, int64(i))
			return nil, out
		case "dup":
			copies = 2
			s.fault("planned-dup")
		case "delay":
			extra += time.Duration(r.DelayMs) * time.Millisecond
			s.fault("planned-delay")
		}
	}
	if pf.Loss > 0 && w.Keyed("loss", l.name, dir, i) < pf.Loss {
		s.fault("loss")
		w.Log("link:"+l.name+":"+dir, "drop", b, "loss", int64(i))
		return nil, out
	}
	if pf.Dup > 0 && w.Keyed("dup", l.name, dir, i) < pf.Dup {
		copies = 2
		s.fault("dup")
	}
	if pf.Corrupt > 0 && w.Keyed("corrupt", l.name, dir, i) < pf.Corrupt {
		out = corrupt(w, l.name, dir, i, b)
		s.fault("corrupt")
		w.Log("link:"+l.name+":"+dir, "corrupt", out, "", int64(i))
	}
	for k := 0; k < copies; k++ {
		d := lat(k) + extra
		if k > 0 {
			d += lat(k + 7)
			w.Log("link:"+l.name+":"+dir, "dup", b, "", int64(i))
		}
		if pf.FIFO {
			last := &l.lastDlvC2G
			if dir == "g2c" {
				last = &l.lastDlvG2C
			}
			if now+d <= *last {
				d = *last - now + time.Nanosecond
			}
			*last = now + d
		} else if k == 0 && d > 0 {
			// count reorderings
			last := &l.lastDlvC2G
			if dir == "g2c" {
				last = &l.lastDlvG2C
			}
			if now+d < *last {
				s.fault("reorder")
			} else {
				*last = now + d
			}
		}
		delays = append(delays, d)
	}
	return delays, out
}

func corrupt(w *simrt.World, link, dir string, i int, b []byte) []byte {
	o := append([]byte(nil), b...)
	switch int(w.KeyedU64("ck", link, dir, i) % 5) {
	case 0: // truncate, biased to tiny
		k := int(w.KeyedU64("cl", link, dir, i) % uint64(len(o)+1))
		if w.Keyed("cs", link, dir, i) < 0.5 {
			k = int(w.KeyedU64("cl2", link, dir, i) % 5)
		}
		if k < len(o) {
			o = o[:k]
		}
	case 1: // bit flip
		if len(o) > 0 {
			k := int(w.KeyedU64("cb", link, dir, i) % uint64(len(o)*8))
			o[k/8] ^= 1 << (k % 8)
		}
	case 2: // length field lie
		if len(o) > 0 {
			o[0] = byte(w.KeyedU64("cv", link, dir, i))
		}
	case 3: // force long form
		if len(o) > 0 {
			o[0] = 1
		}
	case 4: // type byte
		if len(o) > 1 {
			o[1] = byte(w.KeyedU64("ct", link, dir, i))
		}
	}
	return o
}

// werr: rules with Act "werr" make the write itself fail (nothing is sent).
func (l *snLink) werr(dir string, b []byte) error {
	s := l.s
	pf := &s.Plan.Cfg.SN
	has := false
	for _, r := range pf.Rules {
		if r.Act == "werr" {
			has = true
		}
	}
	if !has {
		return nil
	}
	class := ""
	if p, err := refsn.Decode(b); err == nil {
		class = p.Name()
	}
	s.mu.Lock()
	defer s.mu.Unlock()
	for ri, r := range pf.Rules {
		if r.Act != "werr" || r.Dir != dir || (r.Link != "" && r.Link != l.name) || (r.Class != "" && r.Class != class) {
			continue
		}
		n := l.ruleHits[ri]
		l.ruleHits[ri] = n + 1
		if n < r.Skip || n >= r.Skip+r.Count {
			continue
		}
		s.fault("write-error")
		return errors.New("write udp: sendto: connection refused")
	}
	return nil
}

// c2g: the client side sent datagram b (called from the driver for raw peers, from the client's
// goroutine for real clients — in both cases only schedules).
func (l *snLink) c2g(b []byte) {
	s := l.s
	i := s.W.Counter("c2g:" + l.name)
	delays, out := l.decide("c2g", i, b)
	for k, d := range delays {
		bb := append([]byte(nil), out...)
		s.W.After(d, fmt.Sprintf("sn:%s:c2g:%06d:%d", l.name, i, k), func() { l.deliverC2G(bb) })
	}
}

func (l *snLink) deliverC2G(b []byte) {
	s := l.s
	if l.sgw != nil {
		l.sgw.recv(l, b)
		return
	}
	if l.gw == nil || l.gw.IsClosed() {
		ls := s.W.Net.Listener(gwAddr)
		if (ls == nil && s.Plan.Cfg.Gateway && !s.W.Net.EverListened(gwAddr) && l.preListen < 5000) || len(l.held) > 0 {
			// the gateway is still starting up (its goroutine may be stalled): the world begins when it
			// listens — hold the datagram instead of losing it
			l.held = append(l.held, b)
			if len(l.held) == 1 {
				l.pollListener()
			}
			return
		}
		if ls == nil {
			s.W.Log("link:"+l.name+":c2g", "drop", b, "no-listener", 0)
			return
		}
		if l.gw != nil {
			l.epoch++
		}
		sess := l.sessName()
		gc := s.W.NewConn("gw.sn:"+sess, true, simrt.Addr{Net: "udp", S: gwAddr}, l.addr)
		gc.Out = func(i int, bb []byte) { l.g2c(bb) }
		gc.WErr = func(i int, bb []byte) error { return l.werr("g2c", bb) }
		gc.OnClose = func() { s.W.Log("sess:"+sess, "end", nil, "", 0) }
		l.gw = gc
		s.mu.Lock()
		s.pendingDial = append(s.pendingDial, sess)
		s.mu.Unlock()
		s.sessions = append(s.sessions, sess)
		s.W.Log("sess:"+sess, "accept", nil, l.name, 0)
		if !ls.Push(gc) {
			s.W.Log("link:"+l.name+":c2g", "drop", b, "accept-queue-full", 0)
			return
		}
	}
	l.gw.Deliver(b)
}

// pollListener delivers the held datagrams, in order, as soon as the gateway listens.
func (l *snLink) pollListener() {
	s := l.s
	l.preListen++
	s.W.After(time.Millisecond, fmt.Sprintf("sn:%s:c2g:prelisten:%06d", l.name, l.preListen), func() {
		if s.W.Net.Listener(gwAddr) == nil && !s.W.Net.EverListened(gwAddr) && l.preListen < 5000 {
			l.pollListener()
			return
		}
		held := l.held
		l.held = nil
		l.preListen = 5000 // from now on datagrams go straight through (or are dropped)
		for _, b := range held {
			l.deliverC2G(b)
		}
	})
}

// g2c: the gateway wrote datagram b (runs in the gateway's goroutine: only schedules).
func (l *snLink) g2c(b []byte) {
	i := l.s.W.Counter("g2c:" + l.name)
	delays, out := l.decide("g2c", i, b)
	for k, d := range delays {
		bb := append([]byte(nil), out...)
		l.s.W.After(d, fmt.Sprintf("sn:%s:g2c:%06d:%d", l.name, i, k), func() { l.deliverG2C(bb) })
	}
}

func (l *snLink) deliverG2C(b []byte) {
	if l.clConn != nil {
		l.clConn.Deliver(b)
		return
	}
	if l.onRecv != nil {
		l.onRecv(b)
	}
}

// ---------------------------------------------------------------------------------------------
// broker dial (gateway -> broker TCP)

type timeoutError struct{}

func (timeoutError) Error() string   { return "dial tcp: i/o timeout" }
func (timeoutError) Timeout() bool   { return true }
func (timeoutError) Temporary() bool { return true }

func (s *Sim) dialTCP(ctx context.Context, addr string, timeout time.Duration) (net.Conn, error) {
	sess := "?"
	s.mu.Lock()
	me := simrt.Goid()
	// which session dials: the goroutine that reads the client's datagrams is the one that dials
	// (structure), or the handler said so in its log right before (text); accept order otherwise
	x, ok := "", false
	for _, lk := range s.links {
		if lk.gw != nil && lk.gw.ReaderGoid() == me {
			x, ok = lk.sessName(), true
		}
	}
	if y, ok2 := s.dialBy[me]; ok2 {
		if !ok {
			x, ok = y, true
		}
		delete(s.dialBy, me)
	}
	if ok {
		sess = x
		for i, p := range s.pendingDial {
			if p == sess {
				s.pendingDial = append(s.pendingDial[:i:i], s.pendingDial[i+1:]...)
				break
			}
		}
	} else if len(s.pendingDial) > 0 {
		sess = s.pendingDial[0]
		s.pendingDial = s.pendingDial[1:]
	}
	s.mu.Unlock()
	switch s.Plan.Broker.DialFail {
	case "refuse":
		s.fault("dial-refused")
		s.W.Log("mq:"+sess, "dial-fail", nil, "refused", 0)
		return nil, errors.New("dial tcp: connection refused")
	case "timeout":
		s.fault("dial-timeout")
		s.W.Log("mq:"+sess, "dial-fail", nil, "timeout", 0)
		if timeout <= 0 {
			timeout = 30 * time.Second
		}
		select {
		case <-time.After(timeout):
			return nil, timeoutError{}
		case <-ctx.Done():
			return nil, ctx.Err()
		}
	}
	return s.broker.accept(sess), nil
}
