package world

import (
	"sort"
	"time"
	"verifsim/simrt"
	"fmt"
	"strings"

	"verifsim/refmqtt"
	"verifsim/refsn"
)

const (
	nsMs            = int64(1e6)
	connectTimeout  = 5000 * nsMs
	pollInterval    = 100 * nsMs
	timingSlack     = 3 * nsMs // jitter (< 1 us per timer), link latency of the closing handshake, scheduling at one instant
)

// gwState is the reference model of the MQTT-SN client state as the properties describe it.
type gwState int

const (
	stDisconnected gwState = iota
	stActive
	stAsleep
	stAwake
)

func (s gwState) String() string { return []string{"disconnected", "active", "asleep", "awake"}[s] }

// stateWalk replays a session and reports the reference state before each event.
type stateWalk struct {
	st         gwState
	selfDisc   bool // the client sent a plain DISCONNECT
	sleepReq   bool // DISCONNECT(d) consumed, reply not yet sent
	sleepDur   uint16
	ka         uint16
	everActive bool
	// the broker's CONNACK(accepted) has reached the gateway but the client's CONNACK has not been
	// sent yet: a slow gateway may be active inside already (what it does with the next packet, and
	// whether it owes the client a DISCONNECT, can go either way)
	maybeActive bool
}

func (w *stateWalk) step(e Ev) {
	switch e.Kind {
	case EvC2G:
		if e.SNErr != nil {
			return
		}
		p := e.SN
		switch p.Type {
		case refsn.CONNECT:
			w.ka = p.Duration
		case refsn.DISCONNECT:
			if p.HasDur && p.Duration > 0 {
				if w.st == stActive || w.st == stAwake || w.st == stAsleep {
					w.sleepReq, w.sleepDur = true, p.Duration
				}
			} else {
				w.selfDisc = true
				w.st = stDisconnected
			}
		case refsn.PINGREQ:
			if w.st == stAsleep {
				w.st = stAwake
			}
		}
	case EvB2G:
		if e.MQ.Type == refmqtt.CONNACK && e.MQ.RC == 0 && w.st == stDisconnected {
			w.maybeActive = true
		}
	case EvG2C:
		if e.SNErr != nil {
			return
		}
		switch e.SN.Type {
		case refsn.CONNACK:
			w.maybeActive = false
			if e.SN.RC == refsn.RCAccepted {
				w.st, w.everActive, w.selfDisc = stActive, true, false
			}
		case refsn.DISCONNECT:
			if w.sleepReq {
				w.sleepReq = false
				w.st = stAsleep
			}
		case refsn.PINGRESP:
			if w.st == stAwake {
				w.st = stAsleep
			}
		}
	}
}

// ---------------------------------------------------------------------------------------------
// C10: half-open connect exchanges are reaped

func oracleC10(v *View, vd *Verdict) {
	for _, sv := range v.Sess {
		lastConnectT := int64(-1)
		gotConnack := false
		label := []string{}
		active := false
		for _, e := range sv.Evs {
			switch e.Kind {
			case EvC2G:
				if e.SNErr == nil {
					if e.SN.Type == refsn.CONNECT && e.SN.ProtocolID == 1 && e.SN.Duration != 0 && !active {
						lastConnectT = e.T
						gotConnack = false
						label = label[:0]
					}
					if len(label) < 5 {
						label = append(label, snLabel(e.SN))
					}
				}
			case EvB2GRx:
				// any byte from the broker after the CONNECT may be the CONNACK
				if lastConnectT >= 0 {
					gotConnack = true
				}
			case EvG2C:
				if e.SNErr == nil && e.SN.Type == refsn.CONNACK && e.SN.RC == refsn.RCAccepted {
					active = true
				}
			}
		}
		if lastConnectT < 0 || gotConnack || active {
			continue
		}
		vd.Trigger = true
		deadline := lastConnectT + connectTimeout + pollInterval + slack(v)
		lab := strings.Join(label, ",")
		if sv.EndT < 0 || sv.EndT > deadline {
			vd.Add("C10", "C10/half-open-session-not-reaped/"+lab, "session %s: last CONNECT at %d, no broker CONNACK, session end at %d (deadline %d)", sv.Name, lastConnectT, sv.EndT, deadline)
		}
		if sv.Dialed && (sv.MqCloseT < 0 || sv.MqCloseT > deadline) {
			vd.Add("C10", "C10/broker-conn-not-closed/"+lab, "session %s: last CONNECT at %d, broker connection closed at %d (deadline %d)", sv.Name, lastConnectT, sv.MqCloseT, deadline)
		}
	}
}

var c10Scripts = [][]string{
	{"C"}, {"C", "C"},
	{"Cw"}, {"Cw", "WT"}, {"Cw", "WT", "WM"}, {"Cw", "WT", "WM", "C"},
	{"aC"}, {"aC", "A"}, {"aCw"}, {"aCw", "A"}, {"aCw", "A", "WT"}, {"aCw", "A", "WT", "WM"},
	{"aC", "A", "A"}, {"Cw", "WT", "WT"},
	// a step of the exchange is refused (or the whole CONNECT is, while an earlier exchange is open)
	{"Cw", "WTwild"}, {"Cw", "WTq3"}, {"aC", "Aother"}, {"aCw", "A", "WTwild"}, {"Cw", "WTwild", "Cw"},
	{"Cw", "C0"}, {"aC", "C0"}, {"Cw", "WT", "C0"}, {"Cw", "Cp"}, {"aC", "A", "C0"}, {"Cw", "WTempty"},
}

func scriptPkt(g *Gen, s string) refsn.Pkt {
	switch strings.TrimPrefix(s, "a") {
	case "C":
		return connectPkt("c1", uint16(g.Range(5, 90)), false, true)
	case "Cw":
		return connectPkt("c1", uint16(g.Range(5, 90)), true, true)
	case "A":
		return authPkt(g, 0)
	case "WT":
		return refsn.Pkt{Type: refsn.WILLTOPIC, TopicName: "will/t", QoS: 1, Will: true}
	case "WM":
		return refsn.Pkt{Type: refsn.WILLMSG, Data: []byte("bye")}
	case "WTwild":
		return refsn.Pkt{Type: refsn.WILLTOPIC, TopicName: []string{"will/#", "will/+/x", "#"}[g.Intn(3)], QoS: 1, Will: true}
	case "WTq3":
		return refsn.Pkt{Type: refsn.WILLTOPIC, TopicName: "will/t", QoS: 3, Will: true}
	case "WTempty":
		return refsn.Pkt{Type: refsn.WILLTOPIC}
	case "Aother":
		return authPkt(g, 2+g.Intn(2))
	case "C0":
		return connectPkt("c1", 0, g.Bool(0.5), true)
	case "Cp":
		c := connectPkt("c1", uint16(g.Range(5, 90)), g.Bool(0.5), true)
		c.ProtocolID = uint8(g.Range(2, 255))
		return c
	}
	return refsn.Pkt{Type: refsn.PINGREQ}
}

// genC10: every prefix of every connect-exchange script, then the peer falls silent; the complete
// scripts run against a broker that never answers CONNECT.
func genC10(g *Gen, idx int) *Plan {
	sc := c10Scripts[idx%len(c10Scripts)]
	cfg := g.BaseCfg()
	cfg.Sched = g.Sched("gateway/connect_transaction.go", "transactions/timed_transaction.go", "gateway/handler1.go")
	cfg.Auth = strings.HasPrefix(sc[0], "a")
	p := &Plan{Family: "C10-" + strings.Join(sc, "."), Cfg: cfg}
	sg := &sessGen{g: g, cid: "c1"}
	for _, s := range sc {
		sg.gap(20, 3000)
		sg.add(scriptPkt(g, s))
	}
	p.Peers = []PeerPlan{{Name: "p1", Ops: sg.ops, Policy: PeerPolicy{Will: "ignore", NoWait: true}}}
	p.Broker.SilentTypes = []string{"CONNECT"}
	if g.Bool(0.2) {
		// the broker stops reading in the middle of the MQTT CONNECT: the gateway's write is blocked
		// half-way when the connect timeout strikes
		p.Family += "+broker-reads-" + "part"
		p.Broker.ReadsOnly = int(g.Range(1, 13))
	}
	p.Cfg.HorizonMs = sg.t + 9000
	return p
}

// ---------------------------------------------------------------------------------------------
// C13 / C14 / C34: termination

type cause struct {
	kind string
	t    int64
	idx  int
}

// terminationCause finds the first termination cause of a session.
func terminationCause(v *View, sv *SessView) (c cause, st stateWalk) {
	c.idx = -1
	var w stateWalk
	for _, e := range sv.Evs {
		switch e.Kind {
		case EvEnd:
			// ended for a reason that is not one of the causes studied here (connect timeout: C10)
			return c, w
		case EvShutdown:
			return cause{"gateway-shutdown", e.T, e.Idx}, w
		case EvC2G:
			if e.SNErr != nil {
				return cause{"decode-error", e.T, e.Idx}, w
			}
			p := e.SN
			if p.Type == refsn.DISCONNECT && (!p.HasDur || p.Duration == 0) {
				pre := w
				w.step(e)
				return cause{"client-disconnect", e.T, e.Idx}, pre
			}
			if !refsn.LegalDirection(p.Type, refsn.ToGateway) {
				return cause{"illegal-packet", e.T, e.Idx}, w
			}
			if !w.everActive && w.st == stDisconnected {
				switch p.Type {
				case refsn.CONNECT, refsn.AUTH, refsn.WILLTOPIC, refsn.WILLMSG:
				case refsn.PUBLISH:
					if !(p.QoS == 3 && !v.R.Plan.Cfg.Auth && (p.TIT == refsn.TITShort || p.TIT == refsn.TITPredefined)) {
						return cause{"illegal-packet", e.T, e.Idx}, w
					}
				case refsn.DISCONNECT:
					// DISCONNECT(d) while disconnected: C07's business; not used by the generators here
				default:
					return cause{"illegal-packet", e.T, e.Idx}, w
				}
			}
		case EvBFin:
			return cause{"broker-" + e.S, e.T, e.Idx}, w
		}
		w.step(e)
	}
	return c, w
}

func oracleC13(v *View, vd *Verdict) {
	for _, sv := range v.Sess {
		c, st := terminationCause(v, sv)
		if c.idx < 0 {
			// ended for a reason that is not among the causes above (a write to the client failed, a retry
			// budget ran out, ...): "when it ends, the broker connection is closed" holds all the same
			if sv.EndT >= 0 && sv.Dialed && (sv.MqCloseT < 0 || sv.MqCloseT > sv.EndT+pollInterval+slack(v)) {
				vd.Add("C13", "C13/broker-conn-not-closed/cause=other", "session %s ended at %d, broker connection closed at %d", sv.Name, sv.EndT, sv.MqCloseT)
			}
			continue
		}
		vd.Trigger = true
		lab := fmt.Sprintf("cause=%s,state=%s", c.kind, st.st)
		deadline := c.t + pollInterval + slack(v)
		if sv.EndT < 0 || sv.EndT > deadline {
			vd.Add("C13", "C13/no-session-end/"+lab, "session %s: %s at %d, session end at %d (deadline %d)", sv.Name, c.kind, c.t, sv.EndT, deadline)
		}
		if sv.Dialed && (sv.MqCloseT < 0 || sv.MqCloseT > deadline) {
			vd.Add("C13", "C13/broker-conn-not-closed/"+lab, "session %s: %s at %d, broker connection closed at %d (deadline %d)", sv.Name, c.kind, c.t, sv.MqCloseT, deadline)
		}
		// DISCONNECT to the client exactly when it was active or awake and did not disconnect itself
		got := 0
		for _, e := range sv.Evs {
			// (a DISCONNECT whose write failed counts: the gateway did its part)
			if e.Idx > c.idx && (e.Kind == EvG2C || e.Kind == EvG2CErr) && e.SNErr == nil && e.SN.Type == refsn.DISCONNECT {
				got++
			}
		}
		switch {
		case c.kind == "client-disconnect":
			// the reply to the client's own DISCONNECT is the normal handshake; a second one is not owed
			if got > 1 {
				vd.Add("C13", "C13/extra-disconnect/"+lab, "session %s: %d DISCONNECTs sent after the client's own DISCONNECT", sv.Name, got)
			}
		case st.st == stActive || st.st == stAwake:
			// "when it ends": a wake-up procedure that was in progress when the cause struck may still be
			// completed (PINGRESP after the cause) — the client is asleep again when the session ends
			backAsleep := false
			if st.st == stAwake {
				for _, e := range sv.Evs {
					if e.Idx > c.idx && e.Kind == EvG2C && e.SNErr == nil && e.SN.Type == refsn.PINGRESP {
						backAsleep = true
					}
				}
			}
			if got == 0 && !backAsleep {
				vd.Add("C13", "C13/disconnect-not-sent/"+lab, "session %s: client was %s when %s happened but got no DISCONNECT", sv.Name, st.st, c.kind)
			}
		case st.st == stDisconnected && !st.everActive:
			if got > 0 && !st.maybeActive {
				vd.Add("C13", "C13/disconnect-sent-to-unconnected-client/"+lab, "session %s: client never connected but got DISCONNECT", sv.Name)
			}
		case st.st == stAsleep && !st.sleepReq:
			// asleep (incl. the don't-care interval after a wake-up PINGRESP): nothing must be sent
			// but the property's wording for this interval is relaxed on purpose (DESIGN C13).
		}
	}
	// no goroutine of any session outlives it: census after final shutdown + drain
	leaked := 0
	var fn []string
	for _, f := range v.R.Leaked {
		if strings.Contains(f, "bisquitt/gateway") || strings.Contains(f, "bisquitt/transactions") || strings.Contains(f, "bisquitt/util") {
			leaked++
			fn = append(fn, shortFn(f))
		}
	}
	if leaked > 0 && v.R.Plan.Cfg.Gateway {
		vd.Add("C13", "C13/goroutine-leak/"+fn[0], "%d gateway goroutines alive %d ms after shutdown: %v", leaked, 3000, fn)
	}
	// "outlives it", not "outlives the gateway": the same census right before the gateway is shut down,
	// judged when every session had ended well before it (a second, less what the scheduler stalled)
	if v.R.PreCensusNs > 0 && v.R.Plan.Cfg.Gateway {
		settled := len(v.Sess) > 0
		for _, sv := range v.Sess {
			if sv.EndT < 0 || sv.EndT > v.R.PreCensusNs-int64(1e9)-v.R.StalledNs {
				settled = false
			}
		}
		if settled {
			var fn []string
			for _, f := range v.R.PreLeaked {
				if strings.Contains(f, "handler1") || strings.Contains(f, "bisquitt/transactions") || strings.Contains(f, "bisquitt/util") {
					fn = append(fn, shortFn(f))
				}
			}
			sort.Strings(fn)
			if len(fn) > 0 {
				vd.Add("C13", "C13/goroutine-outlives-session/"+fn[0], "%d goroutines of ended sessions alive at %d, right before the gateway is shut down (last session ended at least 1 s earlier): %v", len(fn), v.R.PreCensusNs, fn)
			}
		}
	}
	// ... nor a timer chain: a retry timer of an ended session that keeps re-arming itself runs a
	// goroutine of that session every RetryDelay for ever. After the gateway has returned and the last
	// session has ended no repo code may arm a timer (raw-peer plans only: a real client has timers
	// of its own).
	if v.R.Plan.Cfg.Gateway && len(v.R.Plan.Clients) == 0 {
		last, all := int64(-1), true
		for _, sv := range v.Sess {
			if sv.EndT < 0 {
				all = false
			}
			if sv.EndT > last {
				last = sv.EndT
			}
		}
		for _, rec := range v.R.Hist {
			if rec.Ch == "gw" && rec.Kind == "serve-return" && rec.T > last {
				last = rec.T
			}
		}
		if all && last >= 0 && v.R.LastArmNs > last+nsMs {
			vd.Add("C13", "C13/timer-armed-after-last-session-ended", "a timer was armed at %d, %d ms after the gateway returned and the last session ended (%d): a retry timer outlives its session", v.R.LastArmNs, (v.R.LastArmNs-last)/nsMs, last)
		}
	}
}

func shortFn(f string) string {
	f = strings.TrimPrefix(f, "created by ")
	if i := strings.Index(f, "bisquitt/"); i >= 0 {
		f = f[i+len("bisquitt/"):]
	}
	for _, suf := range []string{".func1", ".func2", ".func3", ".1", ".2"} {
		f = strings.TrimSuffix(f, suf)
	}
	return f
}

func oracleC14(v *View, vd *Verdict) {
	for _, sv := range v.Sess {
		ends := sv.EndT >= 0
		for i, e := range sv.Evs {
			if e.Kind != EvG2B || e.MQ.Type != refmqtt.DISCONNECT {
				continue
			}
			vd.Trigger = true
			// find the client packet whose handling produced it
			j := i - 1
			for j >= 0 && sv.Evs[j].Kind != EvC2G {
				j--
			}
			ok := j >= 0 && sv.Evs[j].SNErr == nil && sv.Evs[j].SN.Type == refsn.DISCONNECT && (!sv.Evs[j].SN.HasDur || sv.Evs[j].SN.Duration == 0)
			if !ok {
				c, st := terminationCause(v, sv)
				vd.Add("C14", fmt.Sprintf("C14/mqtt-disconnect-without-client-disconnect/cause=%s,state=%s", c.kind, st.st),
					"session %s: MQTT DISCONNECT written at %d but the last client packet was not a plain DISCONNECT", sv.Name, e.T)
			}
		}
		if ends {
			vd.Trigger = true
		}
	}
}

// life scripts: what the peer does before the cause strikes.
func lifeScript(g *Gen, sg *sessGen, kind int) {
	ka := uint16(g.Range(20, 100))
	switch kind {
	case 0: // nothing at all (accepted only by the cause packet itself)
	case 1: // connecting
		sg.add(connectPkt("c1", ka, true, true))
		sg.gap(10, 200)
	case 2: // active, idle
		sg.add(connectPkt("c1", ka, false, true))
		sg.gap(300, 900)
	case 3: // active with traffic in both directions
		sg.add(connectPkt("c1", ka, false, true))
		sg.gap(300, 900)
		sg.add(refsn.Pkt{Type: refsn.SUBSCRIBE, MsgID: sg.nextMid(), TIT: refsn.TITNormal, TopicName: "t/#", QoS: 2})
		sg.gap(100, 500)
		sg.add(refsn.Pkt{Type: refsn.REGISTER, MsgID: sg.nextMid(), TopicName: "t/a"})
		sg.gap(100, 500)
		for i := 0; i < int(g.Range(1, 4)); i++ {
			sg.add(refsn.Pkt{Type: refsn.PUBLISH, TIT: refsn.TITNormal, TopicID: 1, QoS: uint8(g.Intn(3)), MsgID: sg.nextMid(), Data: sg.payload()})
			sg.gap(50, 600)
		}
	case 4: // asleep, short sleep
		sg.add(connectPkt("c1", ka, false, true))
		sg.gap(300, 900)
		sg.add(refsn.Pkt{Type: refsn.DISCONNECT, HasDur: true, Duration: uint16(g.Range(1, int64(ka)))})
		sg.gap(300, 900)
	case 5: // asleep with pinger (sleep longer than keep-alive)
		sg.add(connectPkt("c1", ka, false, true))
		sg.gap(300, 900)
		sg.add(refsn.Pkt{Type: refsn.DISCONNECT, HasDur: true, Duration: ka + uint16(g.Range(1, 50))})
		sg.gap(300, 900)
	case 6: // awake: PINGREQ consumed, cause strikes right after
		sg.add(connectPkt("c1", ka, false, true))
		sg.gap(300, 900)
		sg.add(refsn.Pkt{Type: refsn.DISCONNECT, HasDur: true, Duration: 10})
		sg.gap(500, 2000)
		sg.add(refsn.Pkt{Type: refsn.PINGREQ, Data: []byte("c1")})
		sg.gap(1, 3)
	case 7: // back from sleep with CONNECT while broker messages wait in the buffer (see genC13 for the rest)
		sg.add(connectPkt("c1", ka, false, true))
		sg.gap(300, 900)
		sg.add(refsn.Pkt{Type: refsn.REGISTER, MsgID: sg.nextMid(), TopicName: "t/a"})
		sg.gap(100, 400)
		sg.add(refsn.Pkt{Type: refsn.DISCONNECT, HasDur: true, Duration: uint16(g.Range(3, 20))})
		sg.gap(800, 2500)
		sg.add(connectPkt("c1", ka, false, false))
		sg.gap(200, 900)
	}
}

// genC13: script x cause x instant.
func genC13(g *Gen, idx int) *Plan {
	cfg := g.BaseCfg()
	cfg.Sched = g.Sched("gateway/handler1.go", "util/conn_with_context.go", "gateway/gateway.go", "transactions/")
	kind := (idx / 8) % 8
	causeK := idx % 8
	cfg.PreCensus = true
	p := &Plan{Cfg: cfg}
	sg := &sessGen{g: g, cid: "c1"}
	sg.gap(5, 300)
	lifeScript(g, sg, kind)
	peer := PeerPlan{Name: "p1", Policy: PeerPolicy{WillTopic: "w/t", WillMsg: []byte("bye")}}
	if kind == 7 {
		// QoS 0-2 messages arrive during the sleep (the last ops are DISCONNECT(d), CONNECT); their retry
		// timers come round every few ms, the gateway is slow: a tick falls into the wake-up procedure
		tS, tW := sg.ops[len(sg.ops)-2].AtMs, sg.ops[len(sg.ops)-1].AtMs
		for i := 0; i < int(g.Range(1, 4)); i++ {
			p.Broker.Injects = append(p.Broker.Injects, BrokerInject{AtMs: g.Range(tS+100, tW-50), Session: "p1", Force: true, Topic: []string{"t/a", "ab", "n/1"}[g.Intn(3)],
				Payload: serialPayload("z", i, 2), QoS: uint8(g.Range(0, 2))})
		}
		p.Cfg.RetryDelayMs = g.Range(3, 40)
		p.Cfg.RetryCount = uint(g.Range(2, 6))
		p.Cfg.SN.MaxLatUs = g.Range(300, 2000)
		p.Cfg.Sched = simrt.SchedCfg{Density: 0.3 + g.Float()*0.7, Overlap: true, StallProb: 0.25, MaxStall: 5 * time.Millisecond, MaxStalls: 60,
			StallAfter: time.Duration(tW) * time.Millisecond}
	}
	if (kind == 4 || kind == 5) && g.Bool(0.6) {
		// messages wait in the sleep buffer, their (paused) retry timers come round while the client sleeps
		// and the session ends asleep: nothing of them may be left behind
		tS := sg.ops[len(sg.ops)-1].AtMs
		for i := 0; i < int(g.Range(1, 3)); i++ {
			p.Broker.Injects = append(p.Broker.Injects, BrokerInject{AtMs: g.Range(tS+50, sg.t), Session: "p1", Force: true, Topic: []string{"ab", "n/1"}[g.Intn(2)],
				Payload: serialPayload("y", i, 2), QoS: uint8(g.Range(1, 2))})
		}
		p.Cfg.RetryDelayMs = g.Range(50, 1500)
	}
	if kind == 3 && g.Bool(0.5) {
		// pending broker->client transactions at the moment of the cause
		p.Broker.Injects = g.injects("p1", int(g.Range(1, 4)), sg.t-200, sg.t+400, "m")
		if g.Bool(0.5) {
			peer.Policy.Puback, peer.Policy.QoS2 = "ignore", "ignore"
		}
	}
	at := sg.t + g.Range(0, 1500)
	causes := []string{"shutdown", "disconnect", "fin", "rst", "garbage", "illegal", "connect-timeout", "shutdown"}
	switch g.Intn(3) {
	case 0:
		causes[7] = "write-error"
	case 1:
		causes[7] = "dial-fail"
	}
	ck := causes[causeK]
	p.Family = fmt.Sprintf("C13-life%d-%s", kind, ck)
	sg.t = at
	switch ck {
	case "shutdown":
		p.Cfg.ShutdownAtMs = at
	case "dial-fail":
		// not a cause the property names either: the broker cannot be reached when the session begins
		p.Broker.DialFail = []string{"refuse", "timeout"}[g.Intn(2)]
		p.Cfg.ShutdownAtMs = at + g.Range(500, 3000)
	case "write-error":
		// not one of the causes the property names: from some write on, the gateway's writes to the client
		// fail; whenever and however the session ends then, it must release everything (the final
		// shutdown at the end of the run is the cause that is judged)
		p.Cfg.SN.Rules = append(p.Cfg.SN.Rules, Rule{Dir: "g2c", Skip: int(g.Range(0, 6)), Count: 1000, Act: "werr"})
		p.Cfg.ShutdownAtMs = at + g.Range(500, 3000)
	case "disconnect":
		sg.add(refsn.Pkt{Type: refsn.DISCONNECT})
		if g.Bool(0.6) {
			// the broker closes its side as soon as it sees the MQTT DISCONNECT: a gateway that is slow right
			// then handles the EOF while the client's DISCONNECT is still being served
			p.Cfg.Sched = simrt.SchedCfg{Density: 0.3 + g.Float()*0.7, Overlap: true, StallProb: 0.25, MaxStall: 5 * time.Millisecond, MaxStalls: 60}
		}
	case "fin", "rst":
		p.Broker.Faults = []BrokerFault{{AtMs: at, Kind: ck}}
	case "garbage":
		raws := [][]byte{{0xff}, {0x05, 0x0c, 0x00}, {0x02, 0x99}, {0x03, 0x04, 0x00}, {}, {0x07, 0x13, 0x00, 0x00}}
		sg.add(refsn.Pkt{Raw: raws[g.Intn(len(raws))]})
	case "illegal":
		sg.add(refsn.Pkt{Type: []byte{refsn.SEARCHGW, refsn.ADVERTISE, refsn.GWINFO, refsn.CONNACK, refsn.SUBACK, refsn.PINGRESP, refsn.WILLTOPICREQ}[g.Intn(7)], Data: []byte{1}})
	case "connect-timeout":
		sg.add(connectPkt("c1", 30, true, true)) // will flag, never answered
		peer.Policy.Will = "ignore"
	}
	if kind == 3 && (ck == "shutdown" || ck == "garbage" || ck == "illegal") && g.Bool(0.3) {
		// "... plus pending send": the broker has stopped reading, a write to it is blocked when the cause strikes
		p.Family += "-blocked-write"
		p.Broker.Faults = append(p.Broker.Faults, BrokerFault{AtMs: at - g.Range(50, 1200), Session: "p1", Kind: "backpressure", Cap: int(g.Range(0, 20)), DurMs: 60000})
	}
	peer.Ops = sg.ops
	for i := range peer.Ops {
		if peer.Ops[i].AtMs >= at {
			peer.Ops[i].NoWait = true // the cause strikes at its instant, whatever the session is waiting for
		}
	}
	p.Peers = []PeerPlan{peer}
	p.Cfg.HorizonMs = at + 7000
	return p
}

// ---------------------------------------------------------------------------------------------
// C34: vanished clients are reaped (enforcing broker)

func oracleC34(v *View, vd *Verdict) {
	bp := &v.R.Plan.Broker
	for _, sv := range v.Sess {
		var w stateWalk
		lastC2G, lastG2B := sv.AcceptT, int64(-1)
		connectT := int64(-1)
		connected := false
		for _, e := range sv.Evs {
			switch e.Kind {
			case EvC2G:
				lastC2G = e.T
				if e.SNErr == nil && e.SN.Type == refsn.CONNECT {
					connectT = e.T
				}
			case EvG2B:
				lastG2B = e.T
			case EvG2C:
				if e.SNErr == nil && e.SN.Type == refsn.CONNACK && e.SN.RC == refsn.RCAccepted {
					connected = true
				}
			}
			w.step(e)
		}
		vd.Trigger = true
		var deadline int64
		lab := ""
		ka := int64(w.ka) * 1000 * nsMs
		switch {
		case !connected:
			lab = "before-connect"
			// no CONNECT at all: only the broker's patience ends the session; once a CONNECT was consumed
			// the gateway's own connect timeout does, however patient the broker is
			deadline = sv.AcceptT + bp.NoConnectMs*nsMs
			if connectT >= 0 {
				deadline = connectT + connectTimeout
			}
		case w.st == stAsleep || w.sleepReq:
			lab = "asleep"
			deadline = lastC2G + int64(w.sleepDur)*1000*nsMs + ka*3/2
			if lastG2B+ka*3/2 > deadline {
				lab = "asleep/gateway-keeps-broker-alive"
			}
		default:
			lab = w.st.String()
			deadline = lastC2G + ka*3/2
			if lastG2B > lastC2G {
				deadline = lastG2B + ka*3/2
			}
			// retransmissions towards the client never reach the broker, so they do not extend the bound
		}
		deadline += 2*pollInterval + slack(v)
		if sv.EndT < 0 || sv.EndT > deadline {
			vd.Add("C34", "C34/session-not-reaped/"+lab, "session %s: client silent since %d (state %s, keep-alive %ds, sleep %ds), session end %d, deadline %d", sv.Name, lastC2G, w.st, w.ka, w.sleepDur, sv.EndT, deadline)
		}
	}
}

func genC34(g *Gen, idx int) *Plan {
	cfg := g.BaseCfg()
	cfg.Sched = g.Sched("gateway/handler1.go")
	kind := idx % 8
	p := &Plan{Family: fmt.Sprintf("C34-life%d", kind), Cfg: cfg}
	sg := &sessGen{g: g, cid: "c1"}
	sg.gap(5, 300)
	if kind == 7 {
		// a long sleep (the gateway pings the broker for the client), then, still asleep, the client
		// announces a short one and vanishes: the bound is set by the *last* announced duration
		ka := uint16(g.Range(3, 8))
		sg.add(connectPkt("c1", ka, false, true))
		sg.gap(300, 900)
		d1 := ka + uint16(g.Range(10, 40))
		sg.add(refsn.Pkt{Type: refsn.DISCONNECT, HasDur: true, Duration: d1})
		sg.gap(300, int64(ka)*1000+2000)
		if g.Bool(0.3) {
			sg.add(refsn.Pkt{Type: refsn.PINGREQ, Data: []byte("c1")})
			sg.gap(200, 1500)
		}
		d2 := uint16(g.Range(1, int64(ka)))
		sg.add(refsn.Pkt{Type: refsn.DISCONNECT, HasDur: true, Duration: d2})
		last := sg.t
		p.Peers = []PeerPlan{{Name: "p1", Ops: sg.ops, Policy: PeerPolicy{SilentAtMs: last + 1}}}
		p.Broker.EnforceKA = true
		p.Broker.NoConnectMs = 5000
		p.Cfg.HorizonMs = last + int64(d1)*1000 + int64(ka)*3000 + 6000
		return p
	}
	if kind == 0 {
		sg.add([]refsn.Pkt{{Type: refsn.WILLTOPIC, TopicName: "w", Will: true}, {Type: refsn.WILLMSG, Data: []byte("x")}, authPkt(g, 0)}[g.Intn(3)])
	} else {
		lifeScript(g, sg, kind)
	}
	// shrink keep-alives so that horizons stay short: rewrite CONNECT durations
	ka := uint16(g.Range(3, 12))
	var maxSleep int64
	for i := range sg.ops {
		if sg.ops[i].Pkt.Type == refsn.CONNECT {
			sg.ops[i].Pkt.Duration = ka
		}
		if sg.ops[i].Pkt.Type == refsn.DISCONNECT && sg.ops[i].Pkt.HasDur {
			d := uint16(g.Range(1, 25))
			sg.ops[i].Pkt.Duration = d
			maxSleep = int64(d)
		}
	}
	// with authentication on, a client that means it sends AUTH after its CONNECT
	if g.Bool(0.3) {
		p.Cfg.Auth = true
		p.Family += "-auth"
		var ops []PeerOp
		shift := int64(0)
		for _, o := range sg.ops {
			o.AtMs += shift
			ops = append(ops, o)
			if o.Pkt.Type == refsn.CONNECT && g.Bool(0.8) {
				d := g.Range(20, 200)
				shift += d
				ops = append(ops, PeerOp{AtMs: o.AtMs + d, Pkt: authPkt(g, 0)})
			}
		}
		sg.ops = ops
	}
	// silence at a random event index: drop the tail of the script
	cut := int(g.Range(1, int64(len(sg.ops))))
	sg.ops = sg.ops[:cut]
	last := sg.ops[len(sg.ops)-1].AtMs
	p.Peers = []PeerPlan{{Name: "p1", Ops: sg.ops, Policy: PeerPolicy{SilentAtMs: last + 1, WillTopic: "w/t", WillMsg: []byte("bye")}}}
	p.Broker.EnforceKA = true
	p.Broker.NoConnectMs = []int64{5000, 5000, 20000}[g.Intn(3)]
	p.Cfg.HorizonMs = last + 1000 + p.Broker.NoConnectMs + maxSleep*1000 + int64(ka)*1500 + 3000
	return p
}

func init() {
	Register(&Check{ID: "C10", Level: "fault_enumeration",
		Rule:   "25 connect-exchange scripts (every prefix of CONNECT[will][AUTH][WILLTOPIC][WILLMSG], repeated CONNECT/AUTH/WILLTOPIC, a refused step: wildcard/QoS 3/empty WILLTOPIC, AUTH with another method, CONNECT with zero keep-alive or an unknown protocol id while an exchange is open) after which the peer is silent; complete scripts face a broker that never answers CONNECT, in a fifth of the runs one that stops reading after 1-13 bytes (the gateway's write of the MQTT CONNECT is blocked half-way); each script with seeded timing, link latency and yield sites; virtual-time deadline = last CONNECT + 5 s + 100 ms poll + 3 ms slack; non-trivial = session in which a CONNECT was consumed and no broker CONNACK arrived",
		Gen:    genC10, Oracle: oracleC10, Quick: 1000, Thorough: 60000})
	Register(&Check{ID: "C13", Level: "fault_enumeration",
		Rule:   "8 session scripts (unconnected, connecting, active idle, active with traffic and pending QoS 1/2 transactions, asleep, asleep with pinger, awake, back from sleep with CONNECT while QoS 0-2 messages wait in the buffer with retry timers of a few ms and a slow gateway) x 7 causes (gateway shutdown, plain DISCONNECT, broker FIN, broker RST, undecodable datagram, illegal packet, connect timeout) at a seeded instant; deadline = cause + 100 ms + 3 ms; DISCONNECT-to-client rule; in scripts asleep / asleep with pinger QoS 1-2 messages wait in the buffer (paused retry timers) when the cause strikes; goroutine census of gateway/transactions/util frames right before the gateway is shut down (every session ended >= 1 s earlier: nothing of a session may outlive it, not only the gateway) and after final shutdown, and timer census: no timer may be armed by repo code after the gateway has returned and the last session has ended; non-trivial = a termination cause occurred",
		Gen:    genC13, Oracle: oracleC13, Quick: 1280, Thorough: 128000})
	Register(&Check{ID: "C14", Level: "fault_enumeration",
		Rule:   "same script x cause space as C13; an MQTT DISCONNECT on a session's broker stream must be the translation of a consumed plain MQTT-SN DISCONNECT; non-trivial = session ended or an MQTT DISCONNECT was written",
		Gen:    func(g *Gen, idx int) *Plan { p := genC13(g, idx); p.Family = strings.Replace(p.Family, "C13", "C14", 1); return p }, Oracle: oracleC14, Quick: 1280, Thorough: 128000})
	Register(&Check{ID: "C34", Level: "fault_enumeration",
		Rule:   "the C13 session scripts (plus: long sleep, then a short one announced while asleep) cut at a seeded event index after which the peer is silent forever; broker model enforces keep-alive (drops after 1.5 x KA without a packet) and drops connections without CONNECT after 5 s (20 s in a third of the runs); keep-alive 3-12 s, sleeps 1-25 s; deadline by state: accept + the broker's patience when no CONNECT was ever consumed, last CONNECT + 5 s (the gateway's own timeout) before connecting otherwise, last activity + 1.5 KA active/awake, + announced sleep asleep, + 200 ms poll + 3 ms; non-trivial = every session",
		Gen:    genC34, Oracle: oracleC34, Quick: 840, Thorough: 56000})
}

// slack: the fixed timing tolerance plus the virtual time this run's scheduler let pass while
// goroutines were parked (slow node, SchedCfg.StallProb): a deadline can be late by that much
// through no fault of the code.
func slack(v *View) int64 { return timingSlack + v.R.StalledNs }
