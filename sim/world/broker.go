package world

import (
	"fmt"
	"net"
	"time"

	"verifsim/refmqtt"
	"verifsim/simrt"
)

// broker is a small conforming MQTT 3.1.1 server model (a stub by necessity). It is purely
// event-driven: everything below runs in the driver, triggered by delivery events.
type broker struct {
	s     *Sim
	plan  *BrokerPlan
	sess  map[string]*bsess
	order []string
	nConnect int
	nSuback  int
	nextID   uint16
}

type bsub struct {
	filter string
	qos    uint8
}

type bsess struct {
	b        *broker
	name     string // gateway session name (peer#epoch)
	conn     *simrt.Conn
	resetByBroker bool
	parser   refmqtt.Parser
	connected bool
	accepted  bool
	connect   refmqtt.Pkt
	subs      []bsub
	closedByGw, closedByBroker bool
	gotDisconnect bool
	lastRx    time.Duration
	kaGen     int
	nOut      int
	lastDlv   time.Duration
	lastRxSched time.Duration
	stallUntil time.Duration
	inflightOut map[uint16]string // broker->gw QoS1/2 ids: "puback"|"pubrec"|"pubcomp"
	inflightIn  map[uint16]bool   // gw->broker QoS2 ids awaiting PUBREL
	rxCount   int
	nConnect, nSuback int
	nextID    uint16
	nAns      int
	nRet int
}

func newBroker(s *Sim) *broker {
	return &broker{s: s, plan: &s.Plan.Broker, sess: map[string]*bsess{}, nextID: 100}
}

// accept is called from the gateway's goroutine (dial). It only creates objects.
func (b *broker) accept(sess string) net.Conn {
	s := b.s
	bs := &bsess{b: b, name: sess, inflightOut: map[uint16]string{}, inflightIn: map[uint16]bool{}, nextID: 100}
	c := s.W.NewConn("gw.mq:"+sess, false, simrt.Addr{Net: "tcp", S: "gw"}, simrt.Addr{Net: "tcp", S: "10.9.9.9:1883"})
	bs.conn = c
	c.Out = func(i int, bb []byte) { bs.fromGw(i, bb) }
	c.OnClose = func() {
		// real code closed: tell the broker side after a short latency
		s.W.After(50*time.Microsecond, "mqclose:"+sess, func() { bs.gwClosed() })
	}
	s.mu.Lock()
	b.sess[sess] = bs
	b.order = append(b.order, sess)
	s.mu.Unlock()
	s.W.Log("mq:"+sess, "dial-ok", nil, "", 0)
	if b.plan.ReadsOnly > 0 {
		s.fault("broker-backpressure")
		c.SetWriteLimit(b.plan.ReadsOnly)
	}
	if b.plan.NoConnectMs > 0 {
		s.W.After(time.Duration(b.plan.NoConnectMs)*time.Millisecond, "noconnect:"+sess, func() {
			if !bs.connected && !bs.closedByGw && !bs.closedByBroker {
				s.W.Log("broker:"+sess, "drop-noconnect", nil, "", 0)
				bs.close("fin")
			}
		})
	}
	return c
}

// fromGw: the gateway wrote bytes (gateway goroutine): schedule delivery to the broker, possibly re-segmented.
func (bs *bsess) fromGw(i int, b []byte) {
	s := bs.b.s
	pf := &s.Plan.Cfg.MQ
	w := s.W
	segs := [][]byte{b}
	if pf.Reseg > 0 && len(b) > 1 && w.Keyed("reseg", bs.name, i) < pf.Reseg {
		k := 1 + int(w.KeyedU64("resegk", bs.name, i)%uint64(len(b)-1))
		segs = [][]byte{b[:k], b[k:]}
		s.fault("mq-reseg")
	}
	s.mu.Lock()
	now := w.Now()
	for j, sg := range segs {
		span := pf.MaxLatUs - pf.MinLatUs
		d := time.Duration(pf.MinLatUs)*time.Microsecond + time.Duration(w.Keyed("mqlat", bs.name, i, j)*float64(span)*1000)
		at := now + d
		if at <= bs.lastRxSched {
			at = bs.lastRxSched + time.Nanosecond
		}
		bs.lastRxSched = at
		sg := sg
		w.At(at, fmt.Sprintf("mq:%s:g2b:%06d:%d", bs.name, i, j), func() { bs.rx(sg) })
	}
	s.mu.Unlock()
}

func (bs *bsess) rx(b []byte) {
	if bs.closedByBroker {
		return
	}
	for _, p := range bs.parser.Feed(b) {
		bs.onPacket(p)
	}
}

func (bs *bsess) logPkt(dir string, p refmqtt.Pkt) {
	bs.b.s.W.Log("broker:"+bs.name+dir, "pkt", nil, p.String(), int64(p.Type))
}

// send schedules delivery of p to the gateway (FIFO stream).
func (bs *bsess) send(p refmqtt.Pkt) {
	if d := bs.b.plan.AnswerDelayMs; d > 0 && p.Type != refmqtt.PUBLISH {
		// a slow broker writes its answers late; what it writes meanwhile (publishes) goes out first
		bs.nAns++
		bs.b.s.W.After(time.Duration(d)*time.Millisecond, fmt.Sprintf("mqans:%s:%06d", bs.name, bs.nAns), func() {
			bs.sendRaw(p.Encode(), p.String(), int64(p.Type))
		})
		return
	}
	bs.sendRaw(p.Encode(), p.String(), int64(p.Type))
}

func (bs *bsess) sendRaw(raw []byte, desc string, typ int64) {
	if bs.closedByBroker || bs.closedByGw {
		return
	}
	s := bs.b.s
	w := s.W
	i := bs.nOut
	bs.nOut++
	w.Log("broker:"+bs.name+">", "pkt", raw, desc, typ)
	pf := &s.Plan.Cfg.MQ
	span := pf.MaxLatUs - pf.MinLatUs
	d := time.Duration(pf.MinLatUs)*time.Microsecond + time.Duration(w.Keyed("mqlat-b", bs.name, i)*float64(span)*1000)
	at := w.Now() + d
	if at < bs.stallUntil {
		at = bs.stallUntil
	}
	if at <= bs.lastDlv {
		at = bs.lastDlv + time.Nanosecond
	}
	bs.lastDlv = at
	segs := [][]byte{raw}
	if pf.Reseg > 0 && len(raw) > 1 && w.Keyed("reseg-b", bs.name, i) < pf.Reseg {
		k := 1 + int(w.KeyedU64("resegk-b", bs.name, i)%uint64(len(raw)-1))
		segs = [][]byte{raw[:k], raw[k:]}
		s.fault("mq-reseg")
	}
	for j, sg := range segs {
		sg := sg
		w.At(at+time.Duration(j), fmt.Sprintf("mq:%s:b2g:%06d:%d", bs.name, i, j), func() {
			// (what was written before an orderly close still arrives, before the FIN; a reset discards it)
			if !bs.resetByBroker {
				bs.conn.Deliver(sg)
			}
		})
	}
}

func (bs *bsess) close(kind string) {
	if bs.closedByBroker || bs.closedByGw {
		return
	}
	bs.closedByBroker = true
	if kind == "rst" {
		bs.resetByBroker = true
	}
	s := bs.b.s
	s.W.Log("broker:"+bs.name+">", "close", nil, kind, 0)
	at := s.W.Now() + 100*time.Microsecond
	if at <= bs.lastDlv {
		at = bs.lastDlv + time.Nanosecond
	}
	bs.lastDlv = at
	s.W.At(at, "mqfin:"+bs.name, func() {
		if kind == "rst" {
			bs.conn.DeliverErr(errConnReset)
		} else {
			bs.conn.DeliverEOF()
		}
	})
	bs.endOfSession()
}

type netOpErr struct{ msg string }

func (e netOpErr) Error() string   { return e.msg }
func (e netOpErr) Timeout() bool   { return false }
func (e netOpErr) Temporary() bool { return false }

var errConnReset = netOpErr{"read tcp: connection reset by peer"}

func (bs *bsess) gwClosed() {
	if bs.closedByGw {
		return
	}
	bs.closedByGw = true
	bs.b.s.W.Log("broker:"+bs.name+"<", "closed-by-gw", nil, "", 0)
	bs.endOfSession()
}

func (bs *bsess) endOfSession() {
	// will publication when the session ends without DISCONNECT
	if bs.accepted && !bs.gotDisconnect && bs.connect.HasWill {
		bs.b.s.W.Log("broker:will", "will", bs.connect.WillMsg, bs.name+"|"+bs.connect.WillTopic, int64(bs.connect.WillQoS))
		if !bs.b.plan.NoRoute {
			bs.b.route(bs, bs.connect.WillTopic, bs.connect.WillMsg, bs.connect.WillQoS, bs.connect.WillRetain)
		}
	}
	bs.accepted = false
}

func (b *broker) silentFor(t string) bool {
	if b.plan.Silent {
		return true
	}
	for _, x := range b.plan.SilentTypes {
		if x == t {
			return true
		}
	}
	return false
}

func (bs *bsess) onPacket(p refmqtt.Pkt) {
	b := bs.b
	s := b.s
	bs.rxCount++
	bs.lastRx = s.W.Now()
	desc := p.String()
	if len(p.Violations) > 0 {
		desc += fmt.Sprintf(" VIOLATIONS=%v", p.Violations)
	}
	s.W.Log("broker:"+bs.name+"<", "pkt", nil, desc, int64(p.Type))
	if b.plan.Strict && len(p.Violations) > 0 {
		bs.close("fin")
		return
	}
	defer bs.armKA()
	silent := b.silentFor(p.Name())
	switch p.Type {
	case refmqtt.CONNECT:
		if bs.connected {
			// second CONNECT is a protocol violation (3.1.0-2): a strict broker closes.
			if b.plan.Strict {
				bs.close("fin")
			}
			return
		}
		bs.connected = true
		bs.connect = p
		rc := b.plan.ConnackRC
		if bs.nConnect < len(b.plan.ConnackRCs) {
			rc = b.plan.ConnackRCs[bs.nConnect]
		}
		bs.nConnect++
		for _, rc2 := range b.plan.RefuseCIDs {
			if rc2 == p.ClientID {
				rc = 2
			}
		}
		if silent {
			return
		}
		bs.send(refmqtt.Pkt{Type: refmqtt.CONNACK, RC: rc})
		if rc == 0 {
			bs.accepted = true
		} else {
			// server closes after a refusing CONNACK (3.2.2-5)
			bs.close("fin")
		}
	case refmqtt.PUBLISH:
		if !bs.accepted && bs.connected {
			return
		}
		if !silent {
			switch p.QoS {
			case 1:
				bs.send(refmqtt.Pkt{Type: refmqtt.PUBACK, ID: p.ID})
			case 2:
				bs.inflightIn[p.ID] = true
				bs.send(refmqtt.Pkt{Type: refmqtt.PUBREC, ID: p.ID})
			}
		}
		if !b.plan.NoRoute && len(p.Violations) == 0 {
			b.route(bs, p.Topic, p.Payload, p.QoS, false)
		}
	case refmqtt.PUBREL:
		delete(bs.inflightIn, p.ID)
		if !silent {
			bs.send(refmqtt.Pkt{Type: refmqtt.PUBCOMP, ID: p.ID})
		}
	case refmqtt.PUBACK:
		delete(bs.inflightOut, p.ID)
	case refmqtt.PUBREC:
		if !silent {
			bs.inflightOut[p.ID] = "pubcomp"
			bs.send(refmqtt.Pkt{Type: refmqtt.PUBREL, ID: p.ID})
		}
	case refmqtt.PUBCOMP:
		delete(bs.inflightOut, p.ID)
	case refmqtt.SUBSCRIBE:
		codes := make([]byte, len(p.Filters))
		for i, f := range p.Filters {
			q := p.QoSs[i]
			var code byte
			if len(b.plan.SubackCodes) > 0 {
				code = b.plan.SubackCodes[bs.nSuback%len(b.plan.SubackCodes)]
				bs.nSuback++
			} else {
				mq := b.plan.MaxQoS
				if mq == 0 {
					mq = 2
				}
				if mq > 2 { // 3 encodes "cap at 0"
					mq = 0
				}
				code = q
				if code > mq {
					code = mq
				}
				if q > 2 || refmqtt.FilterRule(f) != "" {
					code = 0x80
				}
			}
			codes[i] = code
			if code <= 2 {
				// replace existing subscription with the same filter (3.8.4-3)
				found := false
				for k := range bs.subs {
					if bs.subs[k].filter == f {
						bs.subs[k].qos = code
						found = true
					}
				}
				if !found {
					bs.subs = append(bs.subs, bsub{f, code})
				}
			}
		}
		retained := func(early bool) {
			for _, rm := range b.plan.Retained {
				if rm.Early != early {
					continue
				}
				best := -1
				for i, f := range p.Filters {
					if codes[i] <= 2 && refmqtt.Match(f, rm.Topic) && int(codes[i]) > best {
						best = int(codes[i])
					}
				}
				if best < 0 {
					continue
				}
				q := rm.QoS
				if uint8(best) < q {
					q = uint8(best)
				}
				b.s.fault("retained-publish")
				if early {
					b.s.fault("publish-before-suback")
				}
				// one retained message is sent once per matching SUBSCRIBE: keep payloads unique
				bs.nRet++
				bs.publishTo(rm.Topic, append(append([]byte(nil), rm.Payload...), []byte(fmt.Sprintf("~r%d", bs.nRet))...), q, true, false, 0)
			}
		}
		if !silent {
			retained(true)
			bs.send(refmqtt.Pkt{Type: refmqtt.SUBACK, ID: p.ID, Codes: codes})
			retained(false)
		}
	case refmqtt.UNSUBSCRIBE:
		for _, f := range p.Filters {
			for k := 0; k < len(bs.subs); k++ {
				if bs.subs[k].filter == f {
					bs.subs = append(bs.subs[:k], bs.subs[k+1:]...)
					k--
				}
			}
		}
		if !silent {
			bs.send(refmqtt.Pkt{Type: refmqtt.UNSUBACK, ID: p.ID})
		}
	case refmqtt.PINGREQ:
		if !silent {
			bs.send(refmqtt.Pkt{Type: refmqtt.PINGRESP})
		}
	case refmqtt.DISCONNECT:
		bs.gotDisconnect = true
		// server closes the network connection after DISCONNECT without publishing the will
		bs.close("fin")
	}
}

func (bs *bsess) armKA() {
	b := bs.b
	if !b.plan.EnforceKA || !bs.connected || bs.connect.KeepAlive == 0 {
		return
	}
	bs.kaGen++
	gen := bs.kaGen
	d := time.Duration(bs.connect.KeepAlive) * 1500 * time.Millisecond
	b.s.W.After(d, fmt.Sprintf("ka:%s:%d", bs.name, gen), func() {
		if bs.kaGen == gen && !bs.closedByBroker && !bs.closedByGw {
			b.s.W.Log("broker:"+bs.name, "ka-drop", nil, "", 0)
			b.s.fault("broker-ka-drop")
			bs.close("fin")
		}
	})
}

func (bs *bsess) newID() uint16 {
	bs.nextID++
	if bs.nextID == 0 {
		bs.nextID = 1
	}
	return bs.nextID
}

// publishTo sends a PUBLISH to one session.
func (bs *bsess) publishTo(topic string, payload []byte, qos uint8, retain, dup bool, id uint16) {
	if !bs.accepted || bs.closedByBroker || bs.closedByGw {
		return
	}
	p := refmqtt.Pkt{Type: refmqtt.PUBLISH, Topic: topic, Payload: payload, QoS: qos, Retain: retain, Dup: dup}
	if qos > 0 {
		if id == 0 {
			id = bs.newID()
		}
		p.ID = id
		if qos == 1 {
			bs.inflightOut[id] = "puback"
		} else {
			bs.inflightOut[id] = "pubrec"
		}
	}
	bs.send(p)
}

// route delivers a message to every session with a matching subscription (granted QoS caps).
func (b *broker) route(from *bsess, topic string, payload []byte, qos uint8, retain bool) {
	for _, name := range b.order {
		bs := b.sess[name]
		best := -1
		for _, sub := range bs.subs {
			if refmqtt.Match(sub.filter, topic) && int(sub.qos) > best {
				best = int(sub.qos)
			}
		}
		if best < 0 {
			continue
		}
		q := qos
		if uint8(best) < q {
			q = uint8(best)
		}
		bs.publishTo(topic, payload, q, false, false, 0)
	}
}

// current returns the live broker session that belongs to peer/client `name` (latest epoch).
func (b *broker) current(name string) *bsess {
	var r *bsess
	for _, n := range b.order {
		bs := b.sess[n]
		if peerOf(n) == name {
			r = bs
		}
	}
	return r
}

func peerOf(sess string) string {
	for i := len(sess) - 1; i >= 0; i-- {
		if sess[i] == '#' {
			return sess[:i]
		}
	}
	return sess
}

func (b *broker) inject(in BrokerInject) {
	do := func(bs *bsess, k int) {
		pl := in.Payload
		if k > 0 {
			pl = append(append([]byte(nil), pl...), []byte(fmt.Sprintf("~%d", k))...)
		}
		id := in.ID
		if k > 0 && id != 0 {
			id += uint16(k)
		}
		if in.Force {
			bs.publishTo(in.Topic, pl, in.QoS, in.Retain, in.Dup, id)
			return
		}
		best := -1
		for _, sub := range bs.subs {
			if refmqtt.Match(sub.filter, in.Topic) && int(sub.qos) > best {
				best = int(sub.qos)
			}
		}
		if best >= 0 {
			q := in.QoS
			if uint8(best) < q {
				q = uint8(best)
			}
			bs.publishTo(in.Topic, pl, q, in.Retain, in.Dup, id)
		}
	}
	for k := 0; k <= in.Burst; k++ {
		if in.Session != "" {
			if bs := b.current(in.Session); bs != nil {
				do(bs, k)
			}
			continue
		}
		for _, n := range b.order {
			do(b.sess[n], k)
		}
	}
}

func (b *broker) faultNow(f BrokerFault) {
	for _, n := range b.order {
		bs := b.sess[n]
		if f.Session != "" && peerOf(n) != f.Session {
			continue
		}
		if bs.closedByBroker || bs.closedByGw {
			continue
		}
		switch f.Kind {
		case "fin", "rst":
			b.s.fault("broker-" + f.Kind)
			bs.close(f.Kind)
		case "stall":
			b.s.fault("broker-stall")
			bs.stallUntil = b.s.W.Now() + time.Duration(f.DurMs)*time.Millisecond
			b.s.W.Log("broker:"+bs.name, "stall", nil, "", f.DurMs)
		case "backpressure":
			b.s.fault("broker-backpressure")
			b.s.W.Log("broker:"+bs.name, "backpressure", nil, "", int64(f.Cap))
			bs.conn.SetWriteLimit(f.Cap)
			conn, name := bs.conn, bs.name
			b.s.W.After(time.Duration(f.DurMs)*time.Millisecond, "mq:"+name+":window-opens", func() {
				b.s.W.Log("broker:"+name, "window-opens", nil, "", 0)
				conn.SetWriteLimit(-1)
			})
		case "raw":
			b.s.fault("broker-raw")
			bs.sendRaw(f.Raw, "RAW", -1)
		}
	}
}
