package world

import (
	"fmt"
	"sort"
	"strconv"
	"strings"
	"time"

	"github.com/anishathalye/porcupine"

	"verifsim/simrt"
)

// ---------------------------------------------------------------------------------------------
// C18: a finished transaction stays finished

func oracleC18(v *View, vd *Verdict) {
	if v.R.Plan.TX == nil {
		oracleC18Sleep(v, vd)
		return
	}
	kind := v.R.Plan.TX.Kind
	nfinally, doneSeen := 0, false
	doneErr, finalErr := "", ""
	finalDone := false
	ncbAfter := 0
	changedTo := ""
	sawFinal := false
	for _, rec := range v.R.Hist {
		if rec.Ch != "tx" || sawFinal {
			continue // what happens after the final observation (end of the run) is not judged
		}
		switch rec.Kind {
		case "finally":
			nfinally++
		case "sample":
			if !doneSeen {
				doneSeen = true
				doneErr = rec.S
			} else if rec.S != doneErr && changedTo == "" {
				changedTo = rec.S
			}
		case "cb":
			if rec.I == 1 {
				ncbAfter++
			}
		case "final":
			finalErr = rec.S
			finalDone = rec.I == 1
			sawFinal = true
		}
	}
	if finalDone || doneSeen {
		vd.Trigger = true
	}
	if nfinally > 1 {
		vd.Add("C18", fmt.Sprintf("C18/finally-count=%d/%s", min(nfinally, 3), kind), "completion callback ran %d times", nfinally)
	}
	if finalDone && nfinally == 0 {
		vd.Add("C18", "C18/finally-count=0/"+kind, "Done closed but the completion callback never ran")
	}
	if !finalDone && nfinally > 0 {
		vd.Add("C18", "C18/finally-without-done/"+kind, "completion callback ran %d times but Done never closed", nfinally)
	}
	if ncbAfter > 0 {
		vd.Add("C18", "C18/retry-after-done/"+kind, "%d retry callbacks started after Done was closed", ncbAfter)
	}
	if changedTo != "" {
		finalErr = changedTo
	}
	if doneSeen && finalDone && doneErr != finalErr {
		vd.Add("C18", fmt.Sprintf("C18/err-changed/%s/%s->%s", kind, errClassTX(doneErr), errClassTX(finalErr)), "Err() was %q when Done closed and %q at the end", doneErr, finalErr)
	}
}

func errClassTX(s string) string {
	switch {
	case s == "nil":
		return "nil"
	case strings.Contains(s, "no more retries"):
		return "no-more-retries"
	case strings.Contains(s, "timeout"):
		return "timeout"
	case strings.Contains(s, "user-fail"):
		return "user-fail"
	case strings.Contains(s, "callback-fail"):
		return "callback-fail"
	}
	return "other"
}

// the sleep transaction is reached through Client.Sleep against the scripted gateway
func oracleC18Sleep(v *View, vd *Verdict) {
	for ch, recs := range v.Other {
		if !strings.HasPrefix(ch, "api:") {
			continue
		}
		for _, r := range recs {
			if r.Kind == "return" && strings.HasPrefix(r.S, "") {
				vd.Trigger = true
			}
		}
	}
	// after Sleep returned, the client must not resend DISCONNECT(d) nor fire wake-up pings of the finished transaction
	for _, a := range apiCalls(v) {
		if a.op != "sleep" || !a.returned {
			continue
		}
		for ch, recs := range v.Other {
			if ch != "cl.sn:"+a.client+">" {
				continue
			}
			for _, r := range recs {
				if r.Kind == "tx" && r.T > a.retT+int64(time.Millisecond) {
					// traffic after the call returned is fine in general (keep-alive…); a DISCONNECT with duration is not
					if len(r.B) >= 4 && r.B[1] == 0x18 && r.B[0] == 4 && a.err != "nil" {
						vd.Add("C18", "C18/sleep-transaction-resends-after-done", "client %s: DISCONNECT(d) sent at %d after Sleep returned %q at %d", a.client, r.T, a.err, a.retT)
					}
				}
			}
		}
	}
}

func genC18(g *Gen, idx int) *Plan {
	if idx%5 == 4 {
		return genSleepTx(g)
	}
	cfg := Config{HorizonMs: 6000}
	switch g.Intn(4) {
	case 0:
		cfg.Sched = simrt.SchedCfg{Density: 1}
	case 1:
		cfg.Sched = simrt.SchedCfg{Density: 0.5}
	case 2:
		cfg.Sched = simrt.SchedCfg{Density: 0.1, Focus: []string{"transactions/"}, FocusDensity: 1}
	default:
		cfg.Sched = simrt.SchedCfg{Focus: []string{"transactions/retry_transaction.go", "transactions/transaction_base.go", "transactions/timed_transaction.go"}, FocusDensity: 0.6}
	}
	if g.Bool(0.5) {
		cfg.Sched.StallProb = 0.02 + g.Float()*0.2
		cfg.Sched.MaxStall = 2 * time.Second
	}
	// a call released by its gate event may overtake the timer goroutine parked inside timeout()
	cfg.Sched.Overlap = g.Bool(0.7)
	cfg.Sched.Sticky = []float64{0, 0, 0.7, 0.95}[g.Intn(4)]
	delays := []int64{0, 1, 1000, 1e6, 1e9}
	tx := &TXPlan{Kind: []string{"retry", "timed"}[g.Intn(2)], DelayNs: delays[g.Intn(len(delays))], Count: uint(g.Intn(4))}
	if g.Bool(0.15) {
		tx.CallbackFailAt = int(g.Range(1, 3))
	}
	if g.Bool(0.2) {
		tx.CancelAtNs = g.Range(1, 3*tx.DelayNs+1000)
	}
	nth := int(g.Range(1, 3))
	for t := 0; t < nth; t++ {
		var ops []TXOp
		n := int(g.Range(1, 3))
		at := int64(0)
		for i := 0; i < n; i++ {
			// around multiples of the delay, so that calls race the timer
			k := g.Range(0, int64(tx.Count)+2)
			off := []int64{-1000, -1, 0, 0, 1, 1000}[g.Intn(6)]
			a := k*tx.DelayNs + off
			if a < at {
				a = at
			}
			at = a
			op := []string{"success", "fail", "proceed", "proceed"}[g.Intn(4)]
			if tx.Kind == "timed" && op == "proceed" {
				op = "success"
			}
			ops = append(ops, TXOp{AtNs: a, Op: op, Val: i + 1})
		}
		if tx.Kind == "retry" && t == 0 {
			ops = append([]TXOp{{AtNs: 0, Op: "proceed", Val: 0}}, ops...)
		}
		tx.Threads = append(tx.Threads, ops)
	}
	h := (int64(tx.Count)+3)*tx.DelayNs/1e6 + 50
	cfg.HorizonMs = h
	return &Plan{Family: "C18-" + tx.Kind, Cfg: cfg, TX: tx}
}

// genSleepTx: Client.Sleep against the scripted gateway with lost/duplicated replies (C18, C28, C33 reuse it).
func genSleepTx(g *Gen) *Plan {
	cfg := Config{RetryDelayMs: g.Range(500, 3000), RetryCount: uint(g.Range(0, 3)), HorizonMs: 200000}
	cfg.SN = LinkProfile{MinLatUs: 100, MaxLatUs: 5000}
	cfg.Sched = simrt.SchedCfg{Density: g.Float() * 0.2, Focus: []string{"client/sleep_transaction.go"}, FocusDensity: 1}
	cp := ClientPlan{Name: "cl1", ClientID: "c1", Clean: true, ConnectTimeoutMs: 2000, RetryDelayMs: cfg.RetryDelayMs, RetryCount: cfg.RetryCount}
	d := g.Range(1, 4) * 1000
	cp.Ops = []ClientOp{{Op: "dial"}, {Op: "connect"}, {GapMs: 100, Op: "sleep", DurMs: d}, {GapMs: 500, Op: "disconnect"}}
	sg := &SGWPlan{}
	switch g.Intn(4) {
	case 0:
	case 1:
		sg.Rules = []SGWRule{{On: "DISCONNECT", Count: int(g.Range(1, 4)), Act: "ignore"}}
	case 2:
		sg.Rules = []SGWRule{{On: "PINGREQ", Act: "ignore"}}
	case 3:
		sg.Rules = []SGWRule{{On: "DISCONNECT", Act: "also", Reply: []refsnPkt{{Type: 0x18}}}}
	}
	return &Plan{Family: "C18-sleep", Cfg: cfg, Clients: []ClientPlan{cp}, SGW: sg}
}

// ---------------------------------------------------------------------------------------------
// C19: retry and timeout budgets are exact

func oracleC19(v *View, vd *Verdict) {
	tx := v.R.Plan.TX
	if tx == nil {
		return
	}
	// recorded
	type rev struct {
		t    int64
		what string
	}
	var got []rev
	doneT, doneErr := int64(-1), ""
	for _, rec := range v.R.Hist {
		if rec.Ch != "tx" {
			continue
		}
		switch rec.Kind {
		case "cb":
			got = append(got, rev{rec.T, "cb"})
		case "finally":
			if doneT < 0 {
				doneT = rec.T
			}
		case "final":
			if rec.I == 1 {
				doneErr = errClassTX(rec.S)
			}
		}
	}
	// reference: a single thread of ops (generator guarantees)
	type op struct {
		t  int64
		op string
	}
	var ops []op
	for _, th := range tx.Threads {
		for _, o := range th {
			ops = append(ops, op{o.AtNs, o.Op})
		}
	}
	sort.SliceStable(ops, func(i, j int) bool { return ops[i].t < ops[j].t })
	var want []int64
	var wantArm []int // timers armed in a row before each expected callback (jitter accumulates)
	rearmed := 0
	wantDone, wantErr := int64(-1), ""
	horizon := v.R.Plan.Cfg.HorizonMs * nsMs
	d := tx.DelayNs
	if tx.Kind == "timed" {
		wantDone, wantErr = d, "timeout"
		for _, o := range ops {
			if o.t < d && (o.op == "success" || o.op == "fail") {
				wantDone = o.t
				wantErr = map[string]string{"success": "nil", "fail": "user-fail"}[o.op]
				break
			}
		}
	} else {
		if len(tx.Pauses) > 0 {
			ok := false
			for _, rec := range v.R.Hist {
				if rec.Ch == "tx" && rec.Kind == "pausable" {
					ok = true
				}
			}
			if !ok {
				return // this tree has no RetryTransaction.Paused
			}
		}
		paused := func(t int64) (bool, bool) { // (paused, too close to a window's edge to tell)
			for _, pw := range tx.Pauses {
				for _, e := range pw {
					if t-e < 50000 && e-t < 50000 {
						return false, true
					}
				}
				if t >= pw[0] && t < pw[1] {
					return true, false
				}
			}
			return false, false
		}
		// the timer is armed by Proceed and re-armed when a retry callback returns (or at once when the
		// expired delay was a paused one); the callback runs under the transaction's lock, so a call made
		// while it runs takes effect when it returns
		arm := int64(-1)  // when the timer was armed last
		busy := int64(-1) // a retry callback runs until then
		n := int64(0)     // delays counted since the last progress
		cb := tx.CbSleepNs
		i := 0
		for {
			next := int64(-1)
			if arm >= 0 {
				next = arm + d
			}
			if i < len(ops) {
				teff := ops[i].t
				if teff < busy {
					teff = busy
				}
				// (a call that lands within the jitter of a callback's end or of a tick cannot be ordered)
				if cb > 0 && (busy >= 0 && abs64(ops[i].t-busy) < 5000 || next >= 0 && abs64(teff-next) < 5000) {
					vd.Unknown++
					return
				}
				if next < 0 || teff < next {
					o := ops[i]
					i++
					switch o.op {
					case "proceed":
						arm, n = teff, 0
					case "success", "fail":
						wantDone = teff
						wantErr = map[string]string{"success": "nil", "fail": "user-fail"}[o.op]
					}
					if wantDone >= 0 {
						break
					}
					continue
				}
			}
			if next < 0 || next > horizon {
				break
			}
			rearmed++
			if pz, edge := paused(next); edge {
				vd.Unknown++
				return
			} else if pz {
				arm = next
				continue
			}
			n++
			if n > int64(tx.Count) {
				wantDone, wantErr = next, "no-more-retries"
				break
			}
			want = append(want, next)
			wantArm = append(wantArm, rearmed)
			busy = next + cb
			arm = busy
		}
	}
	// calls made after the expected completion are outside this property (C18 covers them)
	for _, o := range ops {
		if wantDone >= 0 && o.t > wantDone {
			return
		}
	}
	vd.Trigger = len(want) > 0 || wantDone >= 0
	tol := func(k int) int64 { return int64(k+2) * 2000 } // accumulated sub-microsecond jitter per re-armed timer
	if len(got) != len(want) {
		dir := "more"
		if len(got) < len(want) {
			dir = "fewer"
		}
		vd.Add("C19", fmt.Sprintf("C19/%s/callback-count/%s-than-budget", tx.Kind, dir), "retry callback ran %d times, budget says %d (count %d, delay %d ns)", len(got), len(want), tx.Count, d)
	} else {
		for k := range want {
			kk := k
			if k < len(wantArm) && wantArm[k] > kk {
				kk = wantArm[k]
			}
			if diff := got[k].t - want[k]; diff < -tol(kk) || diff > tol(kk) {
				vd.Add("C19", "C19/"+tx.Kind+"/callback-time", "retry callback %d at %d, expected %d (delay %d ns)", k+1, got[k].t, want[k], d)
				break
			}
		}
	}
	switch {
	case wantDone >= 0 && doneT < 0:
		vd.Add("C19", "C19/"+tx.Kind+"/never-finished/want="+wantErr, "expected completion (%s) at %d, transaction never finished", wantErr, wantDone)
	case wantDone < 0 && doneT >= 0:
		vd.Add("C19", "C19/"+tx.Kind+"/finished-unexpectedly/"+doneErr, "finished with %s at %d, expected to be still pending", doneErr, doneT)
	case wantDone >= 0:
		if doneErr != wantErr {
			vd.Add("C19", fmt.Sprintf("C19/%s/wrong-result/want=%s,got=%s", tx.Kind, wantErr, doneErr), "finished with %s at %d, expected %s at %d", doneErr, doneT, wantErr, wantDone)
		} else if diff := doneT - wantDone; diff < -tol(len(want)+rearmed) || diff > tol(len(want)+rearmed) {
			vd.Add("C19", "C19/"+tx.Kind+"/completion-time/"+wantErr, "finished (%s) at %d, expected at %d", doneErr, doneT, wantDone)
		}
	}
}

func genC19(g *Gen, idx int) *Plan {
	cfg := Config{}
	if g.Bool(0.4) {
		cfg.Sched = simrt.SchedCfg{Density: g.Float() * 0.5}
	}
	tx := &TXPlan{Kind: []string{"retry", "retry", "timed"}[g.Intn(3)], Count: uint(g.Range(0, 6))}
	tx.DelayNs = []int64{1e6, 5e6, 1e8, 1e9, 1e10}[g.Intn(5)] + g.Range(0, 999)*1000
	d := tx.DelayNs
	var ops []TXOp
	if tx.Kind == "retry" {
		ops = append(ops, TXOp{AtNs: g.Range(0, 5) * 1e5, Op: "proceed", Val: 0})
	}
	n := int(g.Range(0, 3))
	at := int64(0)
	if len(ops) > 0 {
		at = ops[0].AtNs
	}
	base := at
	for i := 0; i < n; i++ {
		k := g.Range(1, int64(tx.Count)+2)
		off := []int64{-d / 2, -1e6 / 2, -20000, 20000, 1e6 / 2, d / 2}[g.Intn(6)]
		if off <= -d || off >= d {
			off = d / 3
		}
		a := base + k*d + off
		if a <= at {
			a = at + d/7 + 20000
		}
		at = a
		op := []string{"proceed", "proceed", "success", "fail"}[g.Intn(4)]
		if tx.Kind == "timed" && op == "proceed" {
			op = "success"
		}
		if op == "proceed" {
			base = a
		}
		ops = append(ops, TXOp{AtNs: a, Op: op, Val: i + 1})
	}
	tx.Threads = [][]TXOp{ops}
	cfg.HorizonMs = (at+(int64(tx.Count)+3)*d)/1e6 + 10
	fam := "C19-" + tx.Kind
	if tx.Kind == "retry" && idx%6 == 1 {
		// the retry callback is slow (a write that blocks): the next delay starts when it returns, and a
		// call made meanwhile takes effect then; some of the calls are moved into a callback's time
		fam += "-slowcb"
		tx.CbSleepNs = []int64{d / 3, d / 2, d + d/2, 2 * d}[g.Intn(4)]
		for k := 1; k < len(ops); k++ {
			if g.Bool(0.5) {
				ops[k].AtNs = ops[0].AtNs + g.Range(1, int64(tx.Count)+1)*(d+tx.CbSleepNs) - tx.CbSleepNs + g.Range(tx.CbSleepNs/10, tx.CbSleepNs*9/10)
			}
		}
		sort.SliceStable(ops, func(a, b int) bool { return ops[a].AtNs < ops[b].AtNs })
		for k := 2; k < len(ops); k++ {
			if ops[k].AtNs <= ops[k-1].AtNs {
				ops[k].AtNs = ops[k-1].AtNs + 30000
			}
		}
		tx.Threads = [][]TXOp{ops}
		cfg.HorizonMs += (int64(tx.Count) + 3) * tx.CbSleepNs / 1e6
	}
	if tx.Kind == "retry" && idx%3 == 2 {
		// the peer cannot answer for a while (a sleeping client): delays that expire meanwhile are
		// neither retried nor counted; 1-2 windows, edges off the tick grid
		fam += "-paused"
		from := ops[0].AtNs
		total := int64(0)
		for k := int(g.Range(1, 2)); k > 0; k-- {
			a := from + g.Range(0, int64(tx.Count)+1)*d + d/4 + g.Range(0, d/2)
			b := a + g.Range(0, 4)*d + d/5 + g.Range(0, d/2)
			tx.Pauses = append(tx.Pauses, [2]int64{a, b})
			total += b - from
			from = b
		}
		cfg.HorizonMs += total/1e6 + 10
	}
	return &Plan{Family: fam, Cfg: cfg, TX: tx}
}

// ---------------------------------------------------------------------------------------------
// C29: id sequence and transaction store behave atomically (porcupine)

type lop struct {
	thread   int
	in       string
	out      string
	call     int64
	ret      int64
	returned bool
}

func txOps(v *View) []lop {
	var ops []lop
	open := map[string]*lop{}
	for i, rec := range v.R.Hist {
		if !strings.HasPrefix(rec.Ch, "txt:") {
			continue
		}
		th, _ := strconv.Atoi(rec.Ch[4:])
		switch rec.Kind {
		case "invoke":
			open[rec.Ch] = &lop{thread: th, in: rec.S, call: int64(i)}
		case "return":
			if o := open[rec.Ch]; o != nil {
				o.out, o.ret, o.returned = rec.S, int64(i), true
				ops = append(ops, *o)
				delete(open, rec.Ch)
			}
		}
	}
	return ops
}

func oracleC29(v *View, vd *Verdict) {
	tx := v.R.Plan.TX
	if tx == nil {
		return
	}
	ops := txOps(v)
	if len(ops) < 2 {
		return
	}
	vd.Trigger = true
	var model porcupine.Model
	switch tx.Kind {
	case "idseq":
		type st struct {
			next     uint16
			overflow bool
		}
		model = porcupine.Model{
			Init: func() interface{} { return st{tx.Min, false} },
			Step: func(state, in, out interface{}) (bool, interface{}) {
				s := state.(st)
				want := fmt.Sprintf("%d,%v", s.next, s.overflow)
				ns := st{}
				if s.next == tx.Max {
					ns = st{tx.Min, true}
				} else {
					ns = st{s.next + 1, false}
				}
				return out.(string) == want, ns
			},
			Equal: func(a, b interface{}) bool { return a.(st) == b.(st) },
		}
	case "store":
		// two key spaces; partition by (space, key)
		model = porcupine.Model{
			Partition: func(history []porcupine.Operation) [][]porcupine.Operation {
				m := map[string][]porcupine.Operation{}
				var keys []string
				for _, o := range history {
					f := strings.Fields(o.Input.(string))
					space := "id"
					if f[0] == "storet" || f[0] == "gett" || f[0] == "deletet" {
						space = "type"
					}
					k := space + ":" + f[1]
					if _, ok := m[k]; !ok {
						keys = append(keys, k)
					}
					m[k] = append(m[k], o)
				}
				var out [][]porcupine.Operation
				for _, k := range keys {
					out = append(out, m[k])
				}
				return out
			},
			Init: func() interface{} { return "none" },
			Step: func(state, in, out interface{}) (bool, interface{}) {
				f := strings.Fields(in.(string))
				switch f[0] {
				case "store", "storet":
					return true, f[2]
				case "get", "gett":
					return out.(string) == state.(string), state
				case "delete", "deletet":
					return true, "none"
				}
				return false, state
			},
			Equal: func(a, b interface{}) bool { return a.(string) == b.(string) },
		}
	case "state":
		model = porcupine.Model{
			Init: func() interface{} { return "0" },
			Step: func(state, in, out interface{}) (bool, interface{}) {
				f := strings.Fields(in.(string))
				if f[0] == "set" {
					return out.(string) == state.(string), f[2]
				}
				return out.(string) == state.(string), state
			},
			Equal: func(a, b interface{}) bool { return a.(string) == b.(string) },
		}
	default:
		return
	}
	var hist []porcupine.Operation
	for _, o := range ops {
		hist = append(hist, porcupine.Operation{ClientId: o.thread, Input: o.in, Call: o.call, Output: o.out, Return: o.ret})
	}
	res := porcupine.CheckOperationsTimeout(model, hist, 10*time.Second)
	switch res {
	case porcupine.Illegal:
		var l []string
		for _, o := range ops {
			l = append(l, fmt.Sprintf("t%d[%d,%d] %s -> %s", o.thread, o.call, o.ret, o.in, o.out))
		}
		vd.Add("C29", "C29/not-linearizable/"+tx.Kind, "history of %d operations is not linearizable against the sequential %s model: %s", len(ops), tx.Kind, strings.Join(l, "; "))
	case porcupine.Unknown:
		vd.Unknown++
	}
	// a direct consequence that needs no search: no two callers get the same id within one cycle
	if tx.Kind == "idseq" && int(tx.Max-tx.Min)+1 >= len(ops) {
		seen := map[string]bool{}
		for _, o := range ops {
			id := strings.Split(o.out, ",")[0]
			if seen[id] {
				vd.Add("C29", "C29/duplicate-id-within-cycle", "id %s handed out twice within one cycle", id)
			}
			seen[id] = true
		}
	}
}

func genC29(g *Gen, idx int) *Plan {
	cfg := Config{HorizonMs: 50}
	switch g.Intn(3) {
	case 0:
		cfg.Sched = simrt.SchedCfg{Density: 1}
	case 1:
		cfg.Sched = simrt.SchedCfg{Density: 0.5}
	default:
		cfg.Sched = simrt.SchedCfg{Focus: []string{"util/id_sequence.go", "transactions/transaction_store.go", "util/client_state.go"}, FocusDensity: 1}
	}
	cfg.Sched.Sticky = []float64{0, 0, 0.7, 0.95}[g.Intn(4)]
	tx := &TXPlan{Kind: []string{"idseq", "idseq", "store", "state"}[g.Intn(4)]}
	nth := int(g.Range(2, 4))
	nops := int(g.Range(2, 6))
	switch tx.Kind {
	case "idseq":
		tx.Min = uint16(g.Range(0, 3))
		tx.Max = tx.Min + uint16(g.Range(0, 4))
		if idx%4 == 1 {
			// the top of the 16-bit space: the wrap-around must not depend on uint16 arithmetic
			tx.Max = 0xFFFF - uint16(g.Range(0, 1))
			tx.Min = tx.Max - uint16(g.Range(0, 4))
		}
		if g.Tier == "thorough" && idx%200 == 199 {
			tx.Min, tx.Max = 1, 0xFFFF
			nth, nops = 4, 6
		}
	}
	val := 0
	for t := 0; t < nth; t++ {
		var ops []TXOp
		for i := 0; i < nops; i++ {
			val++
			switch tx.Kind {
			case "idseq":
				ops = append(ops, TXOp{Op: "next"})
			case "store":
				op := []string{"store", "get", "delete", "storet", "gett", "deletet"}[g.Intn(6)]
				ops = append(ops, TXOp{Op: op, Key: uint16(g.Range(1, 2)), Val: val})
			case "state":
				op := []string{"set", "get"}[g.Intn(2)]
				ops = append(ops, TXOp{Op: op, Val: int(g.Range(0, 3))})
			}
		}
		tx.Threads = append(tx.Threads, ops)
	}
	return &Plan{Family: "C29-" + tx.Kind, Cfg: cfg, TX: tx}
}

func init() {
	Register(&Check{ID: "C18", Level: "exploration",
		Rule:   "harness goroutines drive RetryTransaction / TimedTransaction (delays 0, 1 ns, 1 us, 1 ms, 1 s; count 0-3; failing callbacks; context cancel) calling Success/Fail/Proceed at instants on and around the timer instants, with every yield site of transactions/ enabled so that the timer goroutine can be parked anywhere inside timeout(); every fifth run drives sleepTransaction through Client.Sleep against the scripted gateway; non-trivial = the transaction completed",
		Gen:    genC18, Oracle: oracleC18, Quick: 3000, Thorough: 600000})
	Register(&Check{ID: "C19", Level: "exploration",
		Rule:   "single-threaded RetryTransaction/TimedTransaction timelines: count 0-6, delays 1 ms-10 s (+ sub-ms offset), Proceed/Success/Fail placed at k*delay +- {20 us, 0.5 ms, delay/2}; every third retry timeline has 1-2 windows in which Paused() reports true (expired delays neither retried nor counted); the recorded virtual timestamps of every retry callback and of completion are compared with a reference timeline (tolerance 2 us per re-armed timer for the seam's jitter); non-trivial = at least one expected callback or completion",
		Gen:    genC19, Oracle: oracleC19, Quick: 3000, Thorough: 600000})
	Register(&Check{ID: "C29", Level: "exploration",
		Rule:   "2-4 harness goroutines x 2-6 calls on IDSequence (ranges of 1-5 ids at the bottom and at the top (max 0xFFFF/0xFFFE) of the 16-bit space, full range in the thorough tier), TransactionStore (both key spaces, unique values) and ClientState, all yield sites enabled; invoke/return stamped with the global history index; checked with porcupine v1.3.0 against sequential models (counter with overflow-on-first-after-wrap, map per key, swap register), 10 s timeout (Unknown counted, never reported); non-trivial = >= 2 completed operations",
		Gen:    genC29, Oracle: oracleC29, Quick: 3000, Thorough: 600000})
}
