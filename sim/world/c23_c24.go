package world

import (
	"fmt"
	"strings"

	"verifsim/refmqtt"
	"verifsim/refsn"
)

// errClass abstracts a refsn well-formedness error into a seed-independent class.
func errClass(b []byte, err error) string {
	e := err.Error()
	switch {
	case len(b) > refsn.MaxDatagram:
		return "oversize"
	case len(b) >= 1 && b[0] == 0:
		return "zero-length-field"
	case strings.Contains(e, "length field"):
		return "length-mismatch"
	case strings.Contains(e, "undefined message type"):
		return "undefined-type"
	case strings.Contains(e, "not valid in this direction"):
		return "wrong-direction"
	case strings.Contains(e, "3-byte length form used"):
		return "long-form-for-short"
	case strings.Contains(e, "datagram of"):
		return "too-short"
	}
	return "body-shape"
}

// lastInput names what the gateway consumed last before event index i in a session.
func lastInput(sv *SessView, upto int) string {
	last := "none"
	for _, e := range sv.Evs {
		if e.Idx >= upto {
			break
		}
		switch e.Kind {
		case EvC2G:
			if e.SNErr == nil {
				last = "sn:" + e.SN.Name()
			} else {
				last = "sn:undecodable"
			}
		case EvB2G:
			last = "mqtt:" + e.MQ.Name()
		}
	}
	return last
}

func oracleC23(v *View, vd *Verdict) {
	n := 0
	for _, sv := range v.Sess {
		for _, e := range sv.Evs {
			if e.Kind != EvG2C {
				continue
			}
			n++
			if _, err := refsn.WellFormed(e.Raw, refsn.ToClient); err != nil {
				vd.Add("C23", fmt.Sprintf("C23/gw->client/%s/after=%s", errClass(e.Raw, err), lastInput(sv, e.Idx)),
					"session %s t=%dns datagram %x: %v", sv.Name, e.T, trunc(e.Raw, 24), err)
			}
		}
	}
	for ch, recs := range v.Other {
		if !strings.HasPrefix(ch, "cl.sn:") || !strings.HasSuffix(ch, ">") {
			continue
		}
		for _, rec := range recs {
			if rec.Kind != "tx" {
				continue
			}
			n++
			if p, err := refsn.WellFormed(rec.B, refsn.ToGateway); err != nil {
				vd.Add("C23", fmt.Sprintf("C23/client->gw/%s/type=%s", errClass(rec.B, err), p.Name()),
					"client %s t=%dns datagram %x: %v", ch, rec.T, trunc(rec.B, 24), err)
			}
		}
	}
	if n >= 3 {
		vd.Trigger = true
	}
}

func oracleC24(v *View, vd *Verdict) {
	n := 0
	for _, sv := range v.Sess {
		for _, e := range sv.Evs {
			if e.Kind != EvG2B {
				continue
			}
			n++
			for _, rule := range e.MQ.Violations {
				vd.Add("C24", fmt.Sprintf("C24/%s/%s/from=%s", e.MQ.Name(), rule, lastInput(sv, e.Idx)),
					"session %s t=%dns %s", sv.Name, e.T, e.MQ.String())
			}
		}
	}
	if n >= 2 {
		vd.Trigger = true
	}
}

// genGWMix: one to two raw peers with a mixed session, broker publishes, optional oddities.
func genGWMix(g *Gen, weird float64, tag string) *Plan {
	cfg := g.BaseCfg()
	cfg.Sched = g.Sched("gateway/handler1.go")
	np := 1
	if g.Bool(0.25) {
		np = 2
	}
	var cids []string
	for i := 0; i < np; i++ {
		cids = append(cids, fmt.Sprintf("c%d", i+1))
	}
	cfg.Predefined = g.PredefWithFilters(cids)
	p := &Plan{Family: tag, Cfg: cfg}
	var end int64
	for i := 0; i < np; i++ {
		sg := &sessGen{g: g, cid: cids[i], t: int64(i) * 37}
		o := sessOpts{Weird: weird, Sleep: 0.05, N: int(g.Range(3, 14)), KA: uint16(g.Range(5, 60)), NoDisc: g.Bool(0.5)}
		if g.Bool(0.08) {
			o.KA = 0
		}
		will := g.Bool(0.2)
		sg.session(o, will)
		pol := PeerPolicy{WillTopic: "will/" + cids[i], WillMsg: []byte("bye"), WillQoS: uint8(g.Intn(3)), WillRetain: g.Bool(0.3)}
		if weird > 0 && g.Bool(0.1) {
			pol.WillTopic = ""
		}
		p.Peers = append(p.Peers, PeerPlan{Name: fmt.Sprintf("p%d", i+1), Ops: sg.ops, Policy: pol})
		if sg.t > end {
			end = sg.t
		}
		p.Broker.Injects = append(p.Broker.Injects, g.injects(fmt.Sprintf("p%d", i+1), int(g.Range(0, 6)), 500, sg.t+500, fmt.Sprintf("b%d:", i+1))...)
	}
	if g.Bool(0.1) {
		// oversize broker payloads
		sz := int([]int64{7168, 8183, 8184, 8192, 9000, 20000, 70000}[g.Intn(7)])
		p.Broker.Injects = append(p.Broker.Injects, BrokerInject{AtMs: g.Range(2000, end+1), Session: "p1", Force: true, Topic: "t/a", Payload: serialPayload("big:", 0, sz), QoS: uint8(g.Intn(3))})
	}
	if g.Bool(0.1) {
		// long topic names from the broker (the REGISTER that announces them has its own size limits:
		// the 1-octet/3-octet length forms and the datagram size)
		sz := int([]int64{244, 249, 250, 251, 252, 300, 8170, 8183, 8184, 8186, 8200, 20000}[g.Intn(12)])
		name := "long/" + string(serialPayload("n", 0, sz))
		p.Broker.Injects = append(p.Broker.Injects, BrokerInject{AtMs: g.Range(2000, end+1), Session: "p1", Force: true, Topic: name[:sz], Payload: []byte("x"), QoS: uint8(g.Intn(3))})
	}
	if g.Bool(0.1) {
		p.Broker.SubackCodes = []byte{[]byte{0, 1, 2, 0x80}[g.Intn(4)]}
	}
	p.Cfg.HorizonMs = end + 3000
	return p
}

// genC24Concurrent: two goroutines of one session write to the broker while it does not read — the
// receive loop forwarding the client's PUBLISHes and the retry timer of a QoS 2 exchange resending its
// PUBREC (the broker never sends the PUBREL). The window takes a few more bytes, so one of the writes
// stops half-way; what the broker reads afterwards must still be a sequence of MQTT packets.
func genC24Concurrent(g *Gen) *Plan {
	cfg := g.BaseCfg()
	cfg.Sched = g.Sched("gateway/handler1.go", "util/conn_with_context.go")
	cfg.RetryDelayMs = g.Range(150, 600)
	cfg.RetryCount = uint(g.Range(3, 6))
	p := &Plan{Family: "C24-backpressure-concurrent", Cfg: cfg}
	sg := &sessGen{g: g, cid: "c1"}
	sg.gap(5, 200)
	sg.add(connectPkt("c1", 60, false, true))
	sg.gap(300, 800)
	sg.add(refsn.Pkt{Type: refsn.REGISTER, MsgID: sg.nextMid(), TopicName: "t/a"})
	sg.gap(100, 400)
	t1 := sg.t
	nq := int(g.Range(1, 3))
	for k := 0; k < nq; k++ {
		p.Broker.Injects = append(p.Broker.Injects, BrokerInject{AtMs: t1 + int64(k)*g.Range(5, 60), Session: "p1", Force: true, Topic: "ab", Payload: serialPayload("q2:", k, 3), QoS: 2})
	}
	p.Broker.SilentTypes = []string{"PUBREC"}
	stall := t1 + g.Range(30, cfg.RetryDelayMs)
	p.Broker.Faults = append(p.Broker.Faults, BrokerFault{AtMs: stall, Session: "p1", Kind: "backpressure", Cap: int(g.Range(0, 12)), DurMs: cfg.RetryDelayMs + g.Range(50, 2*cfg.RetryDelayMs)})
	// the client's own traffic during the stall
	sg.t = stall
	for k := 0; k < int(g.Range(1, 4)); k++ {
		sg.gap(10, cfg.RetryDelayMs)
		sg.add(refsn.Pkt{Type: refsn.PUBLISH, TIT: refsn.TITNormal, TopicID: 1, QoS: uint8(g.Intn(2)), MsgID: sg.nextMid(), Data: serialPayload("c", k, int(g.Range(0, 60)))})
	}
	sg.gap(3*cfg.RetryDelayMs, 4*cfg.RetryDelayMs)
	p.Peers = []PeerPlan{{Name: "p1", Ops: sg.ops, Policy: PeerPolicy{NoWait: true}}}
	p.Cfg.HorizonMs = sg.t + cfg.RetryDelayMs*int64(cfg.RetryCount+2) + 2000
	return p
}

func init() {
	Register(&Check{ID: "C23", Level: "exploration",
		Rule: "random raw-peer sessions (all packet kinds, sleep/wake shortcuts, zero keep-alive, oversize broker payloads) and real-client sessions; every datagram written by gateway or client is re-parsed by refsn; non-trivial = run with >= 3 datagrams judged; distinct = distinct canonical history",
		Gen: func(g *Gen, idx int) *Plan {
			if idx%4 == 3 {
				return genE2EBasic(g, "C23-e2e")
			}
			return genGWMix(g, 0.1, "C23-gwmix")
		},
		Oracle: oracleC23, Quick: 800, Thorough: 60000,
		Assumptions: []string{"refsn encodes MQTT-SN 1.2 + bisquitt AUTH correctly (written from the specification, cross-checked against datagrams the 181 repo tests expect)", "datagram transport is the simulated link, not pion/udp"}})
	Register(&Check{ID: "C24", Level: "exploration",
		Rule: "random raw-peer sessions biased to decodable-but-untranslatable input (reserved topic-id type, QoS 3 SUBSCRIBE, id 0, DUP+QoS0, empty/wildcard/NUL names, will oddities), every third run the connect-exchange generator of C08/C09 (out-of-turn, repeated, retransmitted and empty WILLTOPIC/WILLMSG/AUTH, slow broker), every fifth gwmix run with 1-2 periods of TCP backpressure (the broker stops reading, the connection takes 0-40 more bytes, writes time out half-way and are resumed); every MQTT packet written to the broker is judged by refmqtt; non-trivial = >= 2 MQTT packets judged",
		Gen: func(g *Gen, idx int) *Plan {
			if idx%3 == 2 {
				// the connect exchange with its out-of-turn, repeated and "no will after all" packets
				p := genConnectExchange(g, "C24-exchange", "C24")
				if p.Cfg.GwHasPass && p.Cfg.GwUser == nil {
					u := "gwuser" // (a password without a user is a configuration error, not client input)
					p.Cfg.GwUser = &u
				}
				return p
			}
			if idx%10 == 9 {
				return genC24Concurrent(g)
			}
			p := genGWMix(g, 0.35, "C24-gwmix")
			if idx%5 == 4 {
				// the broker stops reading for a while: the TCP window fills, the gateway's writes time out
				// half-way (100 ms write deadline) and are resumed — the byte stream must stay a packet stream
				p.Family = "C24-gwmix-backpressure"
				for k := 0; k < int(g.Range(1, 3)); k++ {
					p.Broker.Faults = append(p.Broker.Faults, BrokerFault{AtMs: g.Range(300, p.Cfg.HorizonMs*2/3+301), Session: "p1", Kind: "backpressure", Cap: int(g.Range(0, 40)), DurMs: g.Range(120, 1500)})
				}
			}
			return p
		},
		Oracle: oracleC24, Quick: 800, Thorough: 60000,
		Assumptions: []string{"refmqtt implements the MQTT 3.1.1 normative statements listed in DESIGN.md §3.5"}})
}

var _ = refmqtt.CONNECT
