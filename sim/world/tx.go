package world

import (
	"context"
	"errors"
	"fmt"
	"time"

	pkts "github.com/energomonitor/bisquitt/packets"
	"github.com/energomonitor/bisquitt/transactions"
	"github.com/energomonitor/bisquitt/util"
)

type TXResult struct{}

var errTXUser = errors.New("user-fail")
var errTXCallback = errors.New("callback-fail")

type dummyTx struct {
	transactions.Transaction
	id int
}

func sleepUntil(s *Sim, at int64) {
	d := time.Duration(at) - s.W.Now()
	if d > 0 {
		time.Sleep(d)
	}
}

func (s *Sim) runTX(res *Result, horizon time.Duration) {
	w := s.W
	tx := s.Plan.TX
	res.TX = &TXResult{}
	switch tx.Kind {
	case "retry", "timed":
		ctx, cancel := context.WithCancel(context.Background())
		if tx.CancelAtNs > 0 {
			w.At(time.Duration(tx.CancelAtNs), "txcancel", func() { w.Log("tx", "cancel", nil, "", 0); cancel() })
		}
		var t transactions.Transaction
		var rt *transactions.RetryTransaction
		ncb := 0
		finally := func() { w.Log("tx", "finally", nil, "", 0) }
		isDone := func() bool {
			select {
			case <-t.Done():
				return true
			default:
				return false
			}
		}
		starter := func() {
			if tx.Kind == "retry" {
				rt = transactions.NewRetryTransaction(ctx, time.Duration(tx.DelayNs), tx.Count, func(data interface{}) error {
					ncb++
					d := int64(0)
					if isDone() {
						d = 1
					}
					w.Log("tx", "cb", nil, fmt.Sprint(data), d)
					if tx.CallbackFailAt > 0 && ncb == tx.CallbackFailAt {
						return errTXCallback
					}
					return nil
				}, finally)
				t = rt
			} else {
				t = transactions.NewTimedTransaction(ctx, time.Duration(tx.DelayNs), finally)
			}
			w.Log("tx", "created", nil, tx.Kind, 0)
			// observer
			go func() {
				<-t.Done()
				w.Log("tx", "done", nil, errStr(t.Err()), 0)
			}()
			for ti, ops := range tx.Threads {
				ti, ops := ti, ops
				go func() {
					for oi, op := range ops {
						sleepUntil(s, op.AtNs)
						ch := fmt.Sprintf("txt:%d", ti)
						w.Log(ch, "invoke", nil, op.Op, int64(oi))
						switch op.Op {
						case "success":
							t.Success()
						case "fail":
							t.Fail(errTXUser)
						case "proceed":
							if rt != nil {
								rt.Proceed(op.Val, fmt.Sprintf("d%d", op.Val))
							}
						}
						w.Log(ch, "return", nil, op.Op, int64(oi))
					}
				}()
			}
		}
		w.At(0, "txstart", func() { go starter() })
		w.Run(horizon)
		if t != nil {
			d := int64(0)
			if isDone() {
				d = 1
			}
			w.Log("tx", "final", nil, errStr(t.Err()), d)
		}
		cancel()
	case "idseq":
		seq := util.NewIDSequence(tx.Min, tx.Max)
		s.runThreads(tx, func(ch string, op TXOp) string {
			id, ov := seq.Next()
			return fmt.Sprintf("%d,%v", id, ov)
		})
		w.Run(horizon)
	case "store":
		st := transactions.NewTransactionStore()
		vals := map[int]*dummyTx{}
		get := func(v int) *dummyTx {
			s.mu.Lock()
			defer s.mu.Unlock()
			if d, ok := vals[v]; ok {
				return d
			}
			d := &dummyTx{id: v}
			vals[v] = d
			return d
		}
		// pre-create values outside instrumented code
		for _, th := range tx.Threads {
			for _, op := range th {
				get(op.Val)
			}
		}
		out := func(t transactions.Transaction, ok bool) string {
			if !ok {
				return "none"
			}
			if d, isd := t.(*dummyTx); isd {
				return fmt.Sprint(d.id)
			}
			return "?"
		}
		s.runThreads(tx, func(ch string, op TXOp) string {
			switch op.Op {
			case "store":
				st.Store(op.Key, get(op.Val))
			case "get":
				return out(st.Get(op.Key))
			case "delete":
				st.Delete(op.Key)
			case "storet":
				st.StoreByType(pkts.PacketType(op.Key), get(op.Val))
			case "gett":
				return out(st.GetByType(pkts.PacketType(op.Key)))
			case "deletet":
				st.DeleteByType(pkts.PacketType(op.Key))
			}
			return ""
		})
		w.Run(horizon)
	case "state":
		st := util.StateDisconnected
		s.runThreads(tx, func(ch string, op TXOp) string {
			switch op.Op {
			case "set":
				return fmt.Sprint(uint32(st.Set(util.ClientState(op.Val))))
			case "get":
				return fmt.Sprint(uint32(st.Get()))
			}
			return ""
		})
		w.Run(horizon)
	}
}

func (s *Sim) runThreads(tx *TXPlan, f func(ch string, op TXOp) string) {
	w := s.W
	w.At(0, "txstart", func() {
		for ti, ops := range tx.Threads {
			ti, ops := ti, ops
			go func() {
				ch := fmt.Sprintf("txt:%d", ti)
				for oi, op := range ops {
					sleepUntil(s, op.AtNs)
					w.Log(ch, "invoke", nil, fmt.Sprintf("%s %d %d", op.Op, op.Key, op.Val), int64(oi))
					r := f(ch, op)
					w.Log(ch, "return", nil, r, int64(oi))
				}
			}()
		}
	})
}
