package world

import (
	"context"
	"errors"
	"fmt"
	"reflect"
	"time"

	pkts "github.com/energomonitor/bisquitt/packets"
	"github.com/energomonitor/bisquitt/transactions"
	"github.com/energomonitor/bisquitt/util"

	"verifsim/simrt"
)

type TXResult struct{}

// txErrStr names the package's own sentinel errors by identity, not by their wording
func txErrStr(err error) string {
	switch {
	case err == nil:
		return "nil"
	case errors.Is(err, transactions.ErrNoMoreRetries):
		return "no more retries"
	case errors.Is(err, transactions.ErrTimeout):
		return "transaction timeout"
	}
	return err.Error()
}

var errTXUser = errors.New("user-fail")
var errTXCallback = errors.New("callback-fail")

type dummyTx struct {
	transactions.Transaction
	id int
}

// opGates releases the ops of harness threads from driver events (totally ordered by time and
// key) instead of time.Sleep: goroutines whose sleeps end at the same instant are woken by the Go
// runtime in an order we do not control.
type opGates struct {
	ch [][]chan struct{}
}

func (s *Sim) newGates(tx *TXPlan) *opGates {
	g := &opGates{}
	for ti, ops := range tx.Threads {
		var l []chan struct{}
		prev := int64(0)
		for oi, op := range ops {
			c := make(chan struct{})
			l = append(l, c)
			at := op.AtNs
			if at < prev {
				at = prev
			}
			prev = at
			s.W.At(time.Duration(at)+s.W.HarnessJitter("txop", ti, oi), fmt.Sprintf("txop:%02d:%03d", ti, oi), func() { close(c) })
		}
		g.ch = append(g.ch, l)
	}
	return g
}

func (g *opGates) wait(ti, oi int) { <-g.ch[ti][oi] }

func (s *Sim) runTX(res *Result, horizon time.Duration) {
	w := s.W
	tx := s.Plan.TX
	res.TX = &TXResult{}
	switch tx.Kind {
	case "retry", "timed":
		ctx, cancel := simrt.WithCancel(context.Background())
		if tx.CancelAtNs > 0 {
			w.At(time.Duration(tx.CancelAtNs), "txcancel", func() { w.Log("tx", "cancel", nil, "", 0); cancel() })
		}
		var t transactions.Transaction
		var rt *transactions.RetryTransaction
		ncb := 0
		isDone := func() bool {
			select {
			case <-t.Done():
				return true
			default:
				return false
			}
		}
		// sample records Err() whenever Done is observed closed; it runs inline in goroutines the
		// scheduler controls (an observer goroutine of its own would be scheduled by the Go runtime).
		sample := func(where string) {
			if t != nil && isDone() {
				w.Log("tx", "sample", nil, txErrStr(t.Err()), 0)
			}
		}
		finally := func() { w.Log("tx", "finally", nil, "", 0) }
		gates := s.newGates(tx)
		starter := func() {
			if tx.Kind == "retry" {
				rt = transactions.NewRetryTransaction(ctx, time.Duration(tx.DelayNs), tx.Count, func(data interface{}) error {
					ncb++
					d := int64(0)
					if isDone() {
						d = 1
					}
					w.Log("tx", "cb", nil, fmt.Sprint(data), d)
					sample("cb")
					if tx.CbSleepNs > 0 {
						time.Sleep(time.Duration(tx.CbSleepNs))
						simrt.Resume("harness/tx-cb-slept")
					}
					if tx.CallbackFailAt > 0 && ncb == tx.CallbackFailAt {
						return errTXCallback
					}
					return nil
				}, finally)
				t = rt
				if len(tx.Pauses) > 0 {
					// by name: a tree without the field still builds (the plan is then not judged)
					if f := reflect.ValueOf(rt).Elem().FieldByName("Paused"); f.IsValid() && f.CanSet() && f.Type() == reflect.TypeOf((func() bool)(nil)) {
						f.Set(reflect.ValueOf(func() bool {
							now := int64(w.Now())
							for _, pw := range tx.Pauses {
								if now >= pw[0] && now < pw[1] {
									return true
								}
							}
							return false
						}))
						w.Log("tx", "pausable", nil, "", 0)
					}
				}
			} else {
				t = transactions.NewTimedTransaction(ctx, time.Duration(tx.DelayNs), finally)
			}
			w.Log("tx", "created", nil, tx.Kind, 0)
			for ti, ops := range tx.Threads {
				ti, ops := ti, ops
				go func() {
					for oi, op := range ops {
						gates.wait(ti, oi)
						simrt.Resume(fmt.Sprintf("harness/txgate:%02d", ti))
						ch := fmt.Sprintf("txt:%d", ti)
						w.Log(ch, "invoke", nil, op.Op, int64(oi))
						switch op.Op {
						case "success":
							t.Success()
						case "fail":
							t.Fail(errTXUser)
						case "proceed":
							if rt != nil {
								rt.Proceed(op.Val, fmt.Sprintf("d%d", op.Val))
							}
						}
						w.Log(ch, "return", nil, op.Op, int64(oi))
						sample("op")
					}
				}()
			}
		}
		w.At(0, "txop:", func() { go starter() })
		w.Run(horizon)
		// let calls that are parked half-way complete before the final observation
		w.Drain()
		if t != nil {
			d := int64(0)
			if isDone() {
				d = 1
			}
			w.Log("tx", "final", nil, txErrStr(t.Err()), d)
		}
		cancel()
	case "idseq":
		seq := util.NewIDSequence(tx.Min, tx.Max)
		s.runThreads(tx, func(ch string, op TXOp) string {
			id, ov := seq.Next()
			return fmt.Sprintf("%d,%v", id, ov)
		})
		w.Run(horizon)
	case "store":
		st := transactions.NewTransactionStore()
		vals := map[int]*dummyTx{}
		get := func(v int) *dummyTx {
			s.mu.Lock()
			defer s.mu.Unlock()
			if d, ok := vals[v]; ok {
				return d
			}
			d := &dummyTx{id: v}
			vals[v] = d
			return d
		}
		// pre-create values outside instrumented code
		for _, th := range tx.Threads {
			for _, op := range th {
				get(op.Val)
			}
		}
		out := func(t transactions.Transaction, ok bool) string {
			if !ok {
				return "none"
			}
			if d, isd := t.(*dummyTx); isd {
				return fmt.Sprint(d.id)
			}
			return "?"
		}
		s.runThreads(tx, func(ch string, op TXOp) string {
			switch op.Op {
			case "store":
				st.Store(op.Key, get(op.Val))
			case "get":
				return out(st.Get(op.Key))
			case "delete":
				st.Delete(op.Key)
			case "storet":
				st.StoreByType(pkts.PacketType(op.Key), get(op.Val))
			case "gett":
				return out(st.GetByType(pkts.PacketType(op.Key)))
			case "deletet":
				st.DeleteByType(pkts.PacketType(op.Key))
			}
			return ""
		})
		w.Run(horizon)
	case "state":
		st := util.StateDisconnected
		s.runThreads(tx, func(ch string, op TXOp) string {
			switch op.Op {
			case "set":
				return fmt.Sprint(uint32(st.Set(util.ClientState(op.Val))))
			case "get":
				return fmt.Sprint(uint32(st.Get()))
			}
			return ""
		})
		w.Run(horizon)
	}
}

// runThreads: the caller threads of C29 all run at one virtual instant; the scheduler interleaves
// them at every yield site of the code under test and at a harness yield (one site per thread, so
// that the order in which the Go runtime starts them does not matter) before every call.
func (s *Sim) runThreads(tx *TXPlan, f func(ch string, op TXOp) string) {
	w := s.W
	w.At(0, "txop:", func() {
		for ti, ops := range tx.Threads {
			ti, ops := ti, ops
			go func() {
				ch := fmt.Sprintf("txt:%d", ti)
				site := fmt.Sprintf("harness/txthread:%02d", ti)
				for oi, op := range ops {
					simrt.Resume(site)
					w.Log(ch, "invoke", nil, fmt.Sprintf("%s %d %d", op.Op, op.Key, op.Val), int64(oi))
					r := f(ch, op)
					w.Log(ch, "return", nil, r, int64(oi))
				}
			}()
		}
	})
}
