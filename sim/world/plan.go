// Package world builds one simulated world per plan: the real gateway and/or real client
// libraries (instrumented through the overlay) on simulated links, a broker model, raw MQTT-SN
// peers and a scripted gateway, all driven by the simrt driver. A Plan is explicit data: it is
// what generators produce, what the shrinker edits and what a replay file stores.
package world

import (
	"verifsim/refsn"
	"verifsim/simrt"
)

// Plan describes one run completely (together with the code under test).
type Plan struct {
	Property string `json:"property"`
	Family   string `json:"family"` // generator family (evidence, shrink hints)
	Seed     uint64 `json:"seed"`

	Cfg     Config       `json:"cfg"`
	Peers   []PeerPlan   `json:"peers,omitempty"`   // raw MQTT-SN clients talking to the real gateway
	Clients []ClientPlan `json:"clients,omitempty"` // real client libraries
	Broker  BrokerPlan   `json:"broker"`
	SGW     *SGWPlan     `json:"sgw,omitempty"` // scripted gateway (real clients dial it instead of the real gateway)
	TX      *TXPlan      `json:"tx,omitempty"`  // direct transaction / id-sequence workloads
	CLI     *CLIPlan     `json:"cli,omitempty"` // a command-line tool run through Application.Run

	Note string `json:"note,omitempty"`
}

type Config struct {
	Gateway       bool                         `json:"gateway"`
	Auth          bool                         `json:"auth,omitempty"`
	GwUser        *string                      `json:"gw_user,omitempty"`
	GwPass        []byte                       `json:"gw_pass,omitempty"`
	GwHasPass     bool                         `json:"gw_has_pass,omitempty"`
	RetryDelayMs  int64                        `json:"retry_delay_ms"`
	RetryCount    uint                         `json:"retry_count"`
	Predefined    map[string]map[uint16]string `json:"predefined,omitempty"`
	MaxTopicAlias uint16                       `json:"max_topic_alias,omitempty"` // 0 = real (0xFFFE)
	Sched         simrt.SchedCfg               `json:"sched"`
	SN            LinkProfile                  `json:"sn"`
	MQ            StreamProfile                `json:"mq"`
	HorizonMs     int64                        `json:"horizon_ms"`
	ShutdownAtMs  int64                        `json:"shutdown_at_ms,omitempty"` // gateway ctx cancelled here (0 = at horizon)
	PreCensus     bool                         `json:"pre_census,omitempty"`     // goroutine census right before the gateway is shut down too
	RestartAtMs   int64                        `json:"restart_at_ms,omitempty"`  // fresh ListenAndServe afterwards (nothing durable)
	DrainMs       int64                        `json:"drain_ms,omitempty"`       // time simulated after shutdown (default 3000)
}

type Window struct {
	FromMs int64  `json:"from_ms"`
	ToMs   int64  `json:"to_ms"`
	Dir    string `json:"dir,omitempty"` // "", "c2g", "g2c"
	Link   string `json:"link,omitempty"` // "" = all
}

// Rule matches datagrams of one class in one direction on one link and acts on the
// [Skip, Skip+Count) matching occurrences.
type Rule struct {
	Link  string `json:"link,omitempty"` // peer/client name, "" = any
	Dir   string `json:"dir"`            // "c2g" | "g2c"
	Class string `json:"class"`          // refsn type name, e.g. "PUBLISH"; "" = any
	Skip  int    `json:"skip,omitempty"`
	Count int    `json:"count"`
	Act   string `json:"act"` // "drop" | "dup" | "delay" | "werr" (the sender's write fails with an error, nothing is sent)
	DelayMs int64 `json:"delay_ms,omitempty"`
}

type LinkProfile struct {
	MinLatUs   int64    `json:"min_lat_us"`
	MaxLatUs   int64    `json:"max_lat_us"`
	TailProb   float64  `json:"tail_prob,omitempty"`
	TailMaxMs  int64    `json:"tail_max_ms,omitempty"`
	Loss       float64  `json:"loss,omitempty"`
	Dup        float64  `json:"dup,omitempty"`
	Corrupt    float64  `json:"corrupt,omitempty"`
	FIFO       bool     `json:"fifo,omitempty"`
	Partitions []Window `json:"partitions,omitempty"`
	Rules      []Rule   `json:"rules,omitempty"`
}

type StreamProfile struct {
	MinLatUs int64   `json:"min_lat_us"`
	MaxLatUs int64   `json:"max_lat_us"`
	Reseg    float64 `json:"reseg,omitempty"` // probability a write is split into several reads
}

// PeerOp: a raw peer sends Pkt at AtMs (absolute virtual ms).
type PeerOp struct {
	AtMs int64     `json:"at_ms"`
	Pkt  refsn.Pkt `json:"pkt"`
	// NoWait: send at AtMs even when the reply to an earlier request (CONNACK, the DISCONNECT that
	// confirms a sleep, the wake-up PINGRESP) has not arrived yet. By default a raw peer behaves like a
	// client in this one respect: it holds its script (all later ops shift) until that reply is in,
	// up to 20 s — a gateway that is slow for a while (stalls) must not turn a conforming script into
	// an out-of-turn one.
	NoWait bool `json:"no_wait,omitempty"`
}

// PeerPolicy: how a raw peer reacts to what the gateway sends.
type PeerPolicy struct {
	Register   string `json:"register,omitempty"`  // "accept" (default) | "reject" | "ignore" | "accept-stale-id" (REGACK names another id)
	Puback     string `json:"puback,omitempty"`    // "accept" (default) | "reject" | "ignore"
	QoS2       string `json:"qos2,omitempty"`      // "full" (default) | "ignore" | "norel"(PUBREC only)
	Will       string `json:"will,omitempty"`      // "answer" (default) | "ignore"
	WillTopic  string `json:"will_topic,omitempty"`
	WillMsg    []byte `json:"will_msg,omitempty"`
	WillQoS    uint8  `json:"will_qos,omitempty"`
	WillRetain bool   `json:"will_retain,omitempty"`
	SilentAtMs int64  `json:"silent_at_ms,omitempty"` // peer stops sending (and reacting) forever (0 = never)
	NoWait     bool   `json:"no_wait,omitempty"`      // all ops are sent at their times (out-of-turn traffic on purpose)
	ReuseID    int    `json:"reuse_id,omitempty"`     // on PUBACK for its own QoS 1 PUBLISH the peer at once publishes again with the same message id, this many times
	// KeepAliveMs > 0: a compliant peer sends PINGREQ whenever it has sent nothing for this long while active.
	KeepAliveMs int64 `json:"keepalive_ms,omitempty"`
}

type PeerPlan struct {
	Name   string     `json:"name"`
	Ops    []PeerOp   `json:"ops"`
	Policy PeerPolicy `json:"policy"`
}

// ClientOp: one API call of a real client library, after sleeping GapMs.
type ClientOp struct {
	GapMs   int64  `json:"gap_ms,omitempty"`
	Op      string `json:"op"` // dial connect register subscribe subscribe_pre unsubscribe unsubscribe_pre publish publish_pre ping sleep disconnect close wait
	Topic   string `json:"topic,omitempty"`
	TopicID uint16 `json:"tid,omitempty"`
	QoS     uint8  `json:"qos,omitempty"`
	Retain  bool   `json:"retain,omitempty"`
	Payload []byte `json:"payload,omitempty"`
	DurMs   int64  `json:"dur_ms,omitempty"`
	Async   bool   `json:"async,omitempty"` // run in its own goroutine, do not wait
}

type ClientPlan struct {
	Name             string     `json:"name"`
	ClientID         string     `json:"client_id"`
	User             string     `json:"user,omitempty"`
	Password         []byte     `json:"password,omitempty"`
	Clean            bool       `json:"clean,omitempty"`
	WillTopic        string     `json:"will_topic,omitempty"`
	WillPayload      []byte     `json:"will_payload,omitempty"`
	WillQoS          uint8      `json:"will_qos,omitempty"`
	WillRetained     bool       `json:"will_retained,omitempty"`
	KeepAliveMs      int64      `json:"keepalive_ms,omitempty"`
	ConnectTimeoutMs int64      `json:"connect_timeout_ms"`
	RetryDelayMs     int64      `json:"retry_delay_ms"`
	RetryCount       uint       `json:"retry_count"`
	UsePredefined    bool       `json:"use_predefined,omitempty"` // share Cfg.Predefined
	StartMs          int64      `json:"start_ms,omitempty"`
	EchoQoS          uint8      `json:"echo_qos,omitempty"` // every subscription handler publishes what it got on "cd" with this QoS (and waits for the result)
	Ops              []ClientOp `json:"ops"`
}

// BrokerInject: the broker sends a PUBLISH to gateway sessions.
type BrokerInject struct {
	AtMs    int64  `json:"at_ms"`
	Session string `json:"session,omitempty"` // peer/client name; "" = route by subscriptions
	Force   bool   `json:"force,omitempty"`   // send even without a matching subscription
	Topic   string `json:"topic"`
	Payload []byte `json:"payload,omitempty"`
	QoS     uint8  `json:"qos,omitempty"`
	Retain  bool   `json:"retain,omitempty"`
	Dup     bool   `json:"dup,omitempty"`
	ID      uint16 `json:"id,omitempty"` // packet id for QoS 1/2 (0 = broker chooses)
	Burst   int    `json:"burst,omitempty"` // extra copies with different payload suffixes, same instant
}

type BrokerFault struct {
	AtMs    int64  `json:"at_ms"`
	Session string `json:"session,omitempty"` // "" = all
	Kind    string `json:"kind"`              // "fin" | "rst" | "stall" | "raw" | "backpressure"
	DurMs   int64  `json:"dur_ms,omitempty"`
	Cap     int    `json:"cap,omitempty"` // kind backpressure: the broker stops reading; the connection takes this many more bytes, then the gateway's writes block
	Raw     []byte `json:"raw,omitempty"` // kind raw: bytes sent to the gateway verbatim
}

type BrokerPlan struct {
	ConnackRC     byte           `json:"connack_rc,omitempty"`
	ConnackRCs    []byte         `json:"connack_rcs,omitempty"` // per CONNECT (in order), overrides ConnackRC
	RefuseCIDs    []string       `json:"refuse_cids,omitempty"` // CONNECTs with these client ids get CONNACK rc=2 (identifier rejected), whatever the above say
	SubackCodes   []byte         `json:"suback_codes,omitempty"` // cyclic script; empty = grant requested
	MaxQoS        uint8          `json:"max_qos,omitempty"`      // used when SubackCodes empty (0 => 2)
	Silent        bool           `json:"silent,omitempty"`       // never answers anything
	SilentTypes   []string       `json:"silent_types,omitempty"` // never answers these packet types
	DialFail      string         `json:"dial_fail,omitempty"`    // "" | "refuse" | "timeout"
	EnforceKA     bool           `json:"enforce_ka,omitempty"`
	NoConnectMs   int64          `json:"no_connect_ms,omitempty"` // drop connections that sent no CONNECT within this (0 = never)
	Strict        bool           `json:"strict,omitempty"`        // close on protocol violation
	Injects       []BrokerInject `json:"injects,omitempty"`
	Faults        []BrokerFault  `json:"faults,omitempty"`
	NoRoute       bool           `json:"no_route,omitempty"` // do not route client publishes to subscribers
	AnswerDelayMs int64          `json:"answer_delay_ms,omitempty"`
	// ReadsOnly > 0: the broker reads this many bytes of every connection and then never reads again
	// (the TCP window stays closed: the gateway's writes block and time out)
	ReadsOnly int `json:"reads_only,omitempty"`
	// Retained messages: sent (retain=1) to a session whenever it subscribes with a matching filter;
	// Early ones before the SUBACK (MQTT 3.1.1 §3.8.4 allows PUBLISH before SUBACK).
	Retained []BrokerRetained `json:"retained,omitempty"`
}

type BrokerRetained struct {
	Topic   string `json:"topic"`
	Payload []byte `json:"payload,omitempty"`
	QoS     uint8  `json:"qos,omitempty"`
	Early   bool   `json:"early,omitempty"`
}

// SGWReaction: what the scripted gateway does when it receives a packet of class On.
type SGWRule struct {
	On     string      `json:"on"`               // type name
	Skip   int         `json:"skip,omitempty"`   // applies to occurrences [Skip, Skip+Count) ; Count 0 = all
	Count  int         `json:"count,omitempty"`
	Act    string      `json:"act"`              // "default" | "ignore" | "reply" (send Reply instead) | "also" (default + Reply)
	Reply  []refsn.Pkt `json:"reply,omitempty"`  // MsgID/TopicID 0xFFFF-placeholders are not used; see CopyMsgID
	CopyID bool        `json:"copy_id,omitempty"` // copy the triggering packet's MsgID into the replies
}

type SGWPlan struct {
	Rules       []SGWRule `json:"rules,omitempty"`
	Ops         []PeerOp  `json:"ops,omitempty"` // unsolicited sends to the first client
	SilentAtMs  int64     `json:"silent_at_ms,omitempty"`
	ConnackRC   byte      `json:"connack_rc,omitempty"`
	SubackRC    byte      `json:"suback_rc,omitempty"`
	FirstTopicID uint16   `json:"first_topic_id,omitempty"`
}

// TXPlan: direct workloads on transactions/util types (C18, C19, C29).
type TXPlan struct {
	Kind    string   `json:"kind"` // "retry" | "timed" | "idseq" | "store" | "state"
	DelayNs int64    `json:"delay_ns,omitempty"`
	Count   uint     `json:"count,omitempty"`
	Threads [][]TXOp `json:"threads,omitempty"`
	Min     uint16   `json:"min,omitempty"`
	Max     uint16   `json:"max,omitempty"`
	CallbackFailAt int `json:"cb_fail_at,omitempty"` // retry callback returns an error on its n-th call (0 = never)
	CancelAtNs int64 `json:"cancel_at_ns,omitempty"` // ctx cancel (0 = never)
	// Pauses: [from, to) windows of virtual time in which RetryTransaction.Paused reports true (the
	// peer cannot answer: delays that expire meanwhile are neither retried nor counted)
	Pauses [][2]int64 `json:"pauses,omitempty"`
	// CbSleepNs: the retry callback takes this long (a slow or blocked write)
	CbSleepNs int64 `json:"cb_sleep_ns,omitempty"`
}

type TXOp struct {
	AtNs int64  `json:"at_ns,omitempty"` // sleep until this virtual instant before the call
	Op   string `json:"op"`              // success fail proceed | next | store get delete storet gett deletet | set get
	Key  uint16 `json:"key,omitempty"`
	Val  int    `json:"val,omitempty"`
}
