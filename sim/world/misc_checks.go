package world

import (
	"bytes"
	"fmt"
	"sort"
	"strings"
	"testing"

	"verifsim/refmqtt"
	"verifsim/refsn"
	"verifsim/simrt"
)

// ---------------------------------------------------------------------------------------------
// C06: exchanges started by each side never interfere (colliding message ids)

func oracleC06(v *View, vd *Verdict) {
	plan := v.R.Plan
	if len(plan.Clients) > 0 && plan.SGW != nil {
		oracleC06Client(v, vd)
		return
	}
	for _, sv := range v.Sess {
		// client-initiated exchanges and broker-initiated exchanges by id
		type ex struct {
			kind  string
			id    uint16
			start int
			done  bool
			t     int64
		}
		var cl, br []*ex
		type ackEv struct {
			id uint16
			t  int64
		}
		var brAcks, clAcks []ackEv // PUBACKs the broker sent / the gateway relayed to the client
		endT := int64(-1) // the session stops here (shutdown at the end of the run, or an earlier death)
		for _, e := range sv.Evs {
			if endT >= 0 {
				break
			}
			switch e.Kind {
			case EvEnd, EvShutdown, EvBFin, EvBClose, EvMqClose:
				endT = e.T
			case EvC2G:
				if e.SNErr != nil {
					break
				}
				p := e.SN
				switch p.Type {
				case refsn.PUBLISH:
					if p.QoS == 1 || p.QoS == 2 {
						cl = append(cl, &ex{kind: fmt.Sprintf("client-PUBLISH%d", p.QoS), id: p.MsgID, start: e.Idx, t: e.T})
					}
				case refsn.SUBSCRIBE:
					cl = append(cl, &ex{kind: "client-SUBSCRIBE", id: p.MsgID, start: e.Idx, t: e.T})
				case refsn.REGACK:
					for _, x := range br {
						if x.kind == "gateway-REGISTER" && !x.done && x.id == p.MsgID && e.Idx > x.start {
							x.done = true
						}
					}
				}
			case EvG2C:
				if e.SNErr != nil {
					break
				}
				p := e.SN
				if p.Type == refsn.PUBACK {
					clAcks = append(clAcks, ackEv{p.MsgID, e.T})
				}
				if p.Type == refsn.REGISTER {
					// the gateway's own exchange (registration before a broker publish); its id is the broker's
					// for QoS 1/2 and one of the gateway's choice (0xFFFF downwards) for QoS 0
					br = append(br, &ex{kind: "gateway-REGISTER", id: p.MsgID, start: e.Idx, t: e.T})
				}
				for _, x := range cl {
					if x.done || x.id != p.MsgID || e.Idx < x.start {
						continue
					}
					switch {
					case x.kind == "client-PUBLISH1" && p.Type == refsn.PUBACK,
						x.kind == "client-PUBLISH2" && p.Type == refsn.PUBCOMP,
						x.kind == "client-SUBSCRIBE" && p.Type == refsn.SUBACK:
						x.done = true
					}
				}
			case EvB2G:
				if e.MQ.Type == refmqtt.PUBACK {
					brAcks = append(brAcks, ackEv{e.MQ.ID, e.T})
				}
				if e.MQ.Type == refmqtt.PUBLISH && e.MQ.QoS > 0 {
					br = append(br, &ex{kind: fmt.Sprintf("broker-PUBLISH%d", e.MQ.QoS), id: e.MQ.ID, start: e.Idx, t: e.T})
				}
			case EvG2B:
				for _, x := range br {
					if x.done || x.id != e.MQ.ID || e.Idx < x.start {
						continue
					}
					if (x.kind == "broker-PUBLISH1" && e.MQ.Type == refmqtt.PUBACK) || (x.kind == "broker-PUBLISH2" && e.MQ.Type == refmqtt.PUBCOMP) {
						x.done = true
					}
				}
			}
		}
		if endT < 0 {
			endT = v.R.SimNs
		}
		budget := plan.Cfg.RetryDelayMs*nsMs*int64(plan.Cfg.RetryCount+2) + int64(3e9)
		// an exchange that reuses the id of an earlier, finished exchange of the same side
		for i, a := range cl {
			for _, b := range cl[:i] {
				if a.id != b.id || a.kind != b.kind || !b.done {
					continue
				}
				vd.Trigger = true
				if endT-a.t >= budget && !a.done {
					vd.Add("C06", fmt.Sprintf("C06/exchange-lost/gw:%s x earlier-finished-%s", a.kind, b.kind), "session %s: %s reused id %d of an earlier finished exchange and never completed (no acknowledgement reached the client)", sv.Name, a.kind, a.id)
				}
				break
			}
		}
		// an exchange that supersedes an unfinished one with the same id (a retransmitted PUBLISH): the
		// broker's PUBACK that arrives within the later exchange's own time must be relayed
		gwD := plan.Cfg.RetryDelayMs * nsMs
		for i, a := range cl {
			if a.kind != "client-PUBLISH1" {
				continue
			}
			for _, b := range cl[:i] {
				if b.id != a.id || b.kind != a.kind || a.t-b.t >= gwD {
					continue
				}
				for _, ba := range brAcks {
					if ba.id != a.id || ba.t <= a.t || ba.t >= a.t+gwD-int64(300e6)-v.R.StalledNs {
						continue
					}
					// was any PUBACK relayed after the later copy was consumed? (an earlier broker PUBACK
					// may have done it already)
					vd.Trigger = true
					relayed := false
					for _, ca := range clAcks {
						if ca.id == a.id && ca.t > a.t {
							relayed = true
						}
					}
					if !relayed && endT-ba.t > int64(1e9) {
						vd.Add("C06", "C06/exchange-lost/gw:client-PUBLISH1 x superseded-client-PUBLISH1", "session %s: PUBLISH id %d was retransmitted at %d (first copy at %d); the broker's PUBACK at %d came within the second exchange's time and was not relayed", sv.Name, a.id, a.t, b.t, ba.t)
					}
					break
				}
				break
			}
		}
		for _, a := range cl {
			for _, b := range br {
				if a.id != b.id || abs64(a.t-b.t) > plan.Broker.AnswerDelayMs*nsMs+int64(200e6) {
					continue
				}
				vd.Trigger = true
				if endT-a.t < budget || endT-b.t < budget {
					continue
				}
				if !a.done {
					vd.Add("C06", fmt.Sprintf("C06/exchange-lost/gw:%s x %s", a.kind, b.kind), "session %s: %s id %d overlapped %s with the same id and never completed (no acknowledgement reached the client)", sv.Name, a.kind, a.id, b.kind)
				}
				if !b.done {
					vd.Add("C06", fmt.Sprintf("C06/exchange-lost/gw:%s x %s", b.kind, a.kind), "session %s: %s id %d overlapped %s with the same id and never completed (the broker got no final acknowledgement)", sv.Name, b.kind, b.id, a.kind)
				}
			}
		}
	}
}

func oracleC06Client(v *View, vd *Verdict) {
	plan := v.R.Plan
	cp := &plan.Clients[0]
	tx := clientTx(v, cp.Name)
	hc := handlerCalls(v, cp.Name)
	for _, a := range apiCalls(v) {
		if a.client != cp.Name || a.op == "dial" || a.op == "connect" || a.op == "wait" || a.op == "disconnect" {
			continue
		}
		vd.Trigger = true
		kind := a.op
		if strings.HasPrefix(a.op, "publish") {
			kind = fmt.Sprintf("Publish%d", descQoS(a.desc))
		}
		if !a.returned {
			vd.Add("C06", "C06/exchange-lost/cl:"+kind+"-hangs", "client: %s never returned while the gateway started an exchange with the same id", a.desc)
		} else if a.err != "nil" {
			vd.Add("C06", "C06/exchange-lost/cl:"+kind+"-failed", "client: %s returned %q while the gateway started an exchange with the same id", a.desc, a.err)
		}
	}
	// the gateway's own exchanges must complete too
	for _, op := range plan.SGW.Ops {
		p := op.Pkt
		switch {
		case p.Type == refsn.PUBLISH && p.QoS == 2:
			rec, comp := false, false
			for _, t := range tx {
				if t.SNErr == nil && t.SN.MsgID == p.MsgID {
					if t.SN.Type == refsn.PUBREC {
						rec = true
					}
					if t.SN.Type == refsn.PUBCOMP {
						comp = true
					}
				}
			}
			n := 0
			for _, c := range hc {
				if bytes.Equal(c.payload, p.Data) {
					n++
				}
			}
			if !rec || !comp {
				step := "PUBREC"
				if rec {
					step = "PUBCOMP"
				}
				vd.Add("C06", "C06/exchange-lost/cl:gw-PUBLISH2-no-"+step, "client never sent %s for the gateway's PUBLISH QoS 2 id %d that collided with its own exchange", step, p.MsgID)
			} else if n != 1 {
				vd.Add("C06", fmt.Sprintf("C06/exchange-lost/cl:gw-PUBLISH2-handler=%d", n), "handler ran %d times for the gateway's QoS 2 message", n)
			}
		case p.Type == refsn.PUBLISH && p.QoS == 1:
			ack := false
			for _, t := range tx {
				if t.SNErr == nil && t.SN.Type == refsn.PUBACK && t.SN.MsgID == p.MsgID {
					ack = true
				}
			}
			if !ack {
				vd.Add("C06", "C06/exchange-lost/cl:gw-PUBLISH1-no-PUBACK", "client never acknowledged the gateway's PUBLISH QoS 1 id %d", p.MsgID)
			}
		case p.Type == refsn.REGISTER:
			ack := false
			for _, t := range tx {
				if t.SNErr == nil && t.SN.Type == refsn.REGACK && t.SN.MsgID == p.MsgID {
					ack = true
				}
			}
			if !ack {
				vd.Add("C06", "C06/exchange-lost/cl:gw-REGISTER-no-REGACK", "client never acknowledged the gateway's REGISTER id %d", p.MsgID)
			}
		}
	}
}

func genC06(g *Gen, idx int) *Plan {
	if idx%2 == 1 {
		return genC06Client(g)
	}
	cfg := g.BaseCfg()
	cfg.Sched = g.Sched("gateway/handler1.go", "transactions/transaction_store.go", "gateway/client_publish_qos1_transaction.go")
	cfg.RetryDelayMs = g.Range(2000, 6000)
	cfg.SN.FIFO = true
	p := &Plan{Family: "C06-gw", Cfg: cfg}
	p.Broker.AnswerDelayMs = g.Range(200, 800)
	sg := &sessGen{g: g, cid: "c1"}
	sg.gap(5, 200)
	sg.add(connectPkt("c1", 60, false, true))
	sg.gap(1200, 1600)
	m := uint16(g.Range(1, 40))
	if g.Bool(0.25) {
		// the ids the gateway itself picks for the REGISTER that precedes a QoS 0 publish: 0xFFFF downwards
		m = 0xFFFF - uint16(g.Intn(2))
	}
	t0 := sg.t
	switch g.Intn(3) {
	case 0:
		sg.add(refsn.Pkt{Type: refsn.PUBLISH, TIT: refsn.TITShort, TopicID: refsn.ShortID("ab"), QoS: 1, MsgID: m, Data: []byte("mine1")})
	case 1:
		sg.add(refsn.Pkt{Type: refsn.PUBLISH, TIT: refsn.TITShort, TopicID: refsn.ShortID("ab"), QoS: 2, MsgID: m, Data: []byte("mine2")})
	case 2:
		sg.add(refsn.Pkt{Type: refsn.SUBSCRIBE, TIT: refsn.TITShort, TopicID: refsn.ShortID("cd"), QoS: 1, MsgID: m})
	}
	// the broker's exchange with the same id starts inside the client's exchange window
	at := t0 + g.Range(-100, p.Broker.AnswerDelayMs)
	p.Broker.Injects = []BrokerInject{{AtMs: at, Session: "p1", Force: true, Topic: []string{"ab", "t/unregistered"}[g.Intn(2)], Payload: []byte("theirs"), QoS: uint8(1 + g.Intn(2)), ID: m}}
	if m >= 0xFFFE {
		// QoS 0 on names without an id: each one starts a gateway REGISTER exchange with an id of the gateway's choice
		p.Broker.Injects = nil
		for k := 0; k < int(g.Range(1, 2)); k++ {
			p.Broker.Injects = append(p.Broker.Injects, BrokerInject{AtMs: at + int64(k), Session: "p1", Force: true, Topic: fmt.Sprintf("t/unregistered%d", k), Payload: []byte(fmt.Sprintf("theirs%d", k)), QoS: 0})
		}
	}
	p.Peers = []PeerPlan{{Name: "p1", Ops: sg.ops}}
	if g.Bool(0.3) {
		// ... "or an earlier finished exchange uses the same message ID": the peer reuses the id of its
		// QoS 1 publish the moment the PUBACK is in
		p.Family = "C06-gw-reuse"
		p.Broker.AnswerDelayMs = 0
		p.Broker.Injects = nil
		sg2 := &sessGen{g: g, cid: "c1"}
		sg2.gap(5, 200)
		sg2.add(connectPkt("c1", 60, false, true))
		sg2.gap(400, 900)
		sg2.add(refsn.Pkt{Type: refsn.PUBLISH, TIT: refsn.TITShort, TopicID: refsn.ShortID("ab"), QoS: 1, MsgID: m, Data: []byte("mine1")})
		sg2.gap(2000, 3000)
		p.Peers = []PeerPlan{{Name: "p1", Ops: sg2.ops, Policy: PeerPolicy{ReuseID: int(g.Range(1, 3))}}}
		p.Cfg.SN.MaxLatUs = g.Range(200, 3000)
		sg = sg2
	}
	if p.Family == "C06-gw" && g.Bool(0.2) {
		// "... or a superseded exchange uses the same message id": the peer retransmits its QoS 1 PUBLISH
		// (DUP) before the gateway gave up on the first copy; the broker's PUBACK comes after the first
		// copy's exchange has timed out but well within the second one's time
		p.Family = "C06-gw-superseded"
		D := cfg.RetryDelayMs
		r := D/2 + g.Range(-200, 200)
		p.Broker.AnswerDelayMs = D + g.Range(100, r-200)
		p.Broker.Injects = nil
		sg4 := &sessGen{g: g, cid: "c1"}
		sg4.gap(5, 200)
		sg4.add(connectPkt("c1", 60, false, true))
		sg4.t += p.Broker.AnswerDelayMs
		sg4.gap(400, 900)
		pub := refsn.Pkt{Type: refsn.PUBLISH, TIT: refsn.TITShort, TopicID: refsn.ShortID("ab"), QoS: 1, MsgID: m, Data: []byte("mine1")}
		sg4.add(pub)
		sg4.t += r
		pub.Dup = true
		sg4.add(pub)
		sg4.gap(D+r, D+r+500)
		p.Peers = []PeerPlan{{Name: "p1", Ops: sg4.ops, Policy: PeerPolicy{NoWait: true}}}
		sg = sg4
	}
	if p.Family == "C06-gw" && g.Bool(0.3) {
		// the same collision around a sleep: the client falls asleep right after its request, the broker's
		// exchange with the same id and then the reply to the client's request wait in the sleep buffer;
		// after the wake-up the first copy of the broker's packet is lost, so the gateway has to retransmit it
		p.Family = "C06-gw-sleep"
		sg3 := &sessGen{g: g, cid: "c1"}
		sg3.gap(5, 200)
		sg3.add(connectPkt("c1", 60, false, true))
		sg3.gap(1200, 1600)
		if m >= 0xFFFE {
			m = uint16(g.Range(1, 40))
		}
		q := uint8(1 + g.Intn(2))
		sg3.add(refsn.Pkt{Type: refsn.PUBLISH, TIT: refsn.TITShort, TopicID: refsn.ShortID("ab"), QoS: q, MsgID: m, Data: []byte("mine")})
		t1 := sg3.t
		sg3.gap(2, 30)
		sg3.add(refsn.Pkt{Type: refsn.DISCONNECT, HasDur: true, Duration: uint16(g.Range(5, 20))})
		p.Broker.AnswerDelayMs = g.Range(300, 800)
		p.Broker.Injects = []BrokerInject{{AtMs: g.Range(sg3.t+40, t1+p.Broker.AnswerDelayMs-40), Session: "p1", Force: true, Topic: "ab", Payload: []byte("theirs"), QoS: uint8(1 + g.Intn(2)), ID: m}}
		sg3.gap(1500, 3000)
		if g.Bool(0.6) {
			sg3.add(connectPkt("c1", 60, false, false))
		} else {
			sg3.add(refsn.Pkt{Type: refsn.PINGREQ, Data: []byte("c1")})
			sg3.gap(300, 600)
			sg3.add(connectPkt("c1", 60, false, false))
		}
		sg3.gap(500, 900)
		p.Peers = []PeerPlan{{Name: "p1", Ops: sg3.ops}}
		if g.Bool(0.7) {
			p.Cfg.SN.Rules = []Rule{{Dir: "g2c", Class: "PUBLISH", Count: 1, Act: "drop"}}
		}
		sg = sg3
	}
	p.Cfg.HorizonMs = sg.t + cfg.RetryDelayMs*int64(cfg.RetryCount+2) + 9000
	return p
}

func genC06Client(g *Gen) *Plan {
	p, cp := g.clBase("C06-client")
	p.Cfg.SN.Rules = nil
	cp.RetryDelayMs = g.Range(1500, 3000)
	p.Cfg.RetryDelayMs = cp.RetryDelayMs
	ops := []ClientOp{{Op: "dial"}, {Op: "connect"}, {GapMs: 100, Op: "subscribe", Topic: "ab", QoS: 2}}
	// the client's message ids are sequential: SUBSCRIBE took 1, the call under test takes 2
	mid := uint16(2)
	var call ClientOp
	switch g.Intn(4) {
	case 0:
		call = ClientOp{GapMs: 500, Op: "publish", Topic: "cd", QoS: 1, Payload: []byte("mine1")}
	case 1:
		call = ClientOp{GapMs: 500, Op: "publish", Topic: "cd", QoS: 2, Payload: []byte("mine2")}
	case 2:
		call = ClientOp{GapMs: 500, Op: "register", Topic: "t/x"}
	case 3:
		call = ClientOp{GapMs: 500, Op: "subscribe", Topic: "zz", QoS: 1}
	}
	ops = append(ops, call, ClientOp{GapMs: 3000, Op: "disconnect"})
	cp.Ops = ops
	// the scripted gateway answers the call late, and starts its own exchange with id 2 meanwhile
	delay := g.Range(300, 900)
	for _, cl := range []string{"PUBACK", "PUBREC", "REGACK", "SUBACK"} {
		p.Cfg.SN.Rules = append(p.Cfg.SN.Rules, Rule{Dir: "g2c", Class: cl, Skip: map[string]int{"SUBACK": 1}[cl], Count: 1, Act: "delay", DelayMs: delay})
	}
	at := 100 + 500 + g.Range(20, delay)
	switch g.Intn(3) {
	case 0:
		p.SGW.Ops = []PeerOp{{AtMs: at, Pkt: refsn.Pkt{Type: refsn.PUBLISH, TIT: refsn.TITShort, TopicID: refsn.ShortID("ab"), QoS: 2, MsgID: mid, Data: []byte("theirs2")}}}
	case 1:
		p.SGW.Ops = []PeerOp{{AtMs: at, Pkt: refsn.Pkt{Type: refsn.PUBLISH, TIT: refsn.TITShort, TopicID: refsn.ShortID("ab"), QoS: 1, MsgID: mid, Data: []byte("theirs1")}}}
	case 2:
		p.SGW.Ops = []PeerOp{{AtMs: at, Pkt: refsn.Pkt{Type: refsn.REGISTER, TopicID: 77, MsgID: mid, TopicName: "gw/new"}}}
	}
	p.Cfg.HorizonMs = 12000
	return p
}

// ---------------------------------------------------------------------------------------------
// C15: client sessions are isolated from each other (structural + differential)

// peerTrace extracts everything that belongs to one peer, without timestamps.
func peerTrace(r *Result, peer string) []string {
	var out []string
	for _, rec := range r.Hist {
		ch := rec.Ch
		if !(strings.Contains(ch, ":"+peer+"#") || strings.HasSuffix(ch, ":"+peer) || strings.Contains(ch, ":"+peer+">") || strings.Contains(ch, ":"+peer+"<") || strings.Contains(ch, ":"+peer+":")) {
			continue
		}
		if strings.HasPrefix(ch, "link:") && rec.Kind == "dup" {
			continue
		}
		out = append(out, fmt.Sprintf("%s %s %x %s", ch, rec.Kind, rec.B, rec.S))
	}
	// per channel order is what matters (cross-channel order inside one instant may differ)
	sort.SliceStable(out, func(i, j int) bool { return strings.SplitN(out[i], " ", 2)[0] < strings.SplitN(out[j], " ", 2)[0] })
	return out
}

func soloPlan(p *Plan, keep string) *Plan {
	q := clonePlan(p)
	var peers []PeerPlan
	for _, pp := range q.Peers {
		if pp.Name == keep {
			peers = append(peers, pp)
		}
	}
	q.Peers = peers
	var inj []BrokerInject
	for _, in := range q.Broker.Injects {
		if in.Session == keep {
			inj = append(inj, in)
		}
	}
	q.Broker.Injects = inj
	var fl []BrokerFault
	for _, f := range q.Broker.Faults {
		if f.Session == keep {
			fl = append(fl, f)
		}
	}
	q.Broker.Faults = fl
	q.Note = "solo:" + keep
	return q
}

// diffC15 runs every peer alone and compares its trace with the joint run.
func diffC15(t *testing.T, joint *Result, vd *Verdict) {
	p := joint.Plan
	if len(p.Peers) < 2 || p.Cfg.Sched.Density != 0 || p.Cfg.Sched.FocusDensity != 0 {
		return
	}
	for _, pp := range p.Peers {
		sp := soloPlan(p, pp.Name)
		a := Execute(t, sp)
		b := Execute(t, sp)
		ta, tb := peerTrace(a, pp.Name), peerTrace(b, pp.Name)
		if strings.Join(ta, "\n") != strings.Join(tb, "\n") {
			vd.Unknown++ // unstable solo runs: comparison void
			continue
		}
		tj := peerTrace(joint, pp.Name)
		vd.Trigger = true
		if strings.Join(ta, "\n") != strings.Join(tj, "\n") {
			// first difference
			k := 0
			for k < len(ta) && k < len(tj) && ta[k] == tj[k] {
				k++
			}
			la, lj := "<end>", "<end>"
			if k < len(ta) {
				la = ta[k]
			}
			if k < len(tj) {
				lj = tj[k]
			}
			ch := strings.SplitN(la+" ", " ", 2)[0]
			if la == "<end>" {
				ch = strings.SplitN(lj+" ", " ", 2)[0]
			}
			ch = strings.ReplaceAll(ch, pp.Name, "P")
			if i := strings.Index(ch, "#"); i > 0 {
				ch = ch[:i] + strings.TrimLeft(ch[i:], "#0123456789")
			}
			vd.Add("C15", "C15/session-trace-depends-on-other-sessions/"+ch, "peer %s behaves differently alone and next to the other peers; first difference: alone %.160q, joint %.160q", pp.Name, la, lj)
		}
	}
}

func oracleC15(v *View, vd *Verdict) {
	plan := v.R.Plan
	// structural: one broker dial per accepted session
	dials := map[string]int{}
	for _, sv := range v.Sess {
		for _, e := range sv.Evs {
			if e.Kind == EvMqDial {
				dials[sv.Name]++
			}
		}
	}
	for _, sv := range v.Sess {
		if sv.AcceptT >= 0 && len(sv.Evs) > 0 && dials[sv.Name] != 1 {
			hasAccept := false
			for _, e := range sv.Evs {
				if e.Kind == EvAccept {
					hasAccept = true
				}
			}
			if hasAccept && plan.Broker.DialFail == "" {
				vd.Add("C15", fmt.Sprintf("C15/broker-connections-per-session=%d", dials[sv.Name]), "session %s has %d broker connections", sv.Name, dials[sv.Name])
			}
		}
	}
	// no payload tag, client id or credential of peer i on peer j's links
	tags := map[string]string{}
	for i, pp := range plan.Peers {
		tags[pp.Name] = fmt.Sprintf("c%d:", i+1)
	}
	for _, sv := range v.Sess {
		for _, e := range sv.Evs {
			var data []byte
			switch e.Kind {
			case EvG2C:
				data = e.Raw
			case EvG2B:
				data = append(append([]byte(e.MQ.Topic+"|"+e.MQ.ClientID+"|"+e.MQ.User+"|"), e.MQ.Payload...), e.MQ.WillMsg...)
			default:
				continue
			}
			for other, tag := range tags {
				if other != sv.Peer && bytes.Contains(data, []byte(tag)) {
					vd.Add("C15", "C15/foreign-data-on-session/"+e.Kind, "session %s carries data tagged %q of peer %s: %s", sv.Name, tag, other, e.String())
				}
			}
		}
	}
	if len(plan.Peers) >= 2 {
		vd.Trigger = true
	}
}

func genC15(g *Gen, idx int) *Plan {
	cfg := g.BaseCfg()
	differential := idx%2 == 0
	if differential {
		cfg.Sched = simrt.SchedCfg{}
	} else {
		cfg.Sched = g.Sched("gateway/")
	}
	np := int(g.Range(2, 4))
	var cids []string
	for i := 0; i < np; i++ {
		cids = append(cids, fmt.Sprintf("c%d", i+1))
	}
	cfg.Predefined = g.Predef(cids)
	cfg.Auth = g.Bool(0.3)
	p := &Plan{Family: map[bool]string{true: "C15-differential", false: "C15-structural-l2"}[differential], Cfg: cfg}
	var end int64
	for i := 0; i < np; i++ {
		name := fmt.Sprintf("p%d", i+1)
		sg := &sessGen{g: g, cid: cids[i], t: int64(i) * 41}
		o := sessOpts{Weird: 0.1, Sleep: 0.08, N: int(g.Range(3, 12)), KA: uint16(g.Range(10, 60)), NoDisc: g.Bool(0.5)}
		sg.gap(5, 500)
		if cfg.Auth {
			sg.add(connectPkt(cids[i], o.KA, false, true))
			sg.add(refsn.Pkt{Type: refsn.AUTH, AuthMethod: "PLAIN", Data: refsn.PlainAuth("user-"+cids[i]+":", []byte("pw-"+cids[i]+":"))})
			sg.gap(300, 1200)
			for k := 0; k < o.N; k++ {
				sg.activeOp(o)
				sg.gap(20, 1500)
			}
		} else {
			sg.t -= 300
			if sg.t < 0 {
				sg.t = 0
			}
			sg.session(o, g.Bool(0.2))
		}
		if g.Bool(0.15) {
			// a malformed datagram kills this peer's session
			sg.add(refsn.Pkt{Raw: []byte{0x05, 0x0c, 0x00}})
		}
		p.Peers = append(p.Peers, PeerPlan{Name: name, Ops: sg.ops, Policy: PeerPolicy{WillTopic: "will/" + cids[i] + ":", WillMsg: []byte(cids[i] + ":bye")}})
		if sg.t > end {
			end = sg.t
		}
		p.Broker.Injects = append(p.Broker.Injects, g.injects(name, int(g.Range(0, 5)), 600, sg.t+400, cids[i]+":b")...)
	}
	p.Broker.NoRoute = true // routing between sessions at the broker is not the gateway's doing
	if g.Bool(0.3) {
		// the gateway connects every client with its own credentials; the broker refuses one client by
		// its id: what the refusal does to that session must not show in any other
		u := "gwuser"
		p.Cfg.GwUser = &u
		p.Cfg.GwHasPass, p.Cfg.GwPass = true, []byte("gw-secret")
		p.Broker.RefuseCIDs = []string{cids[g.Intn(np-1)]} // (never the last one: somebody connects after the refusal)
	}
	p.Cfg.HorizonMs = end + 3000
	return p
}

// ---------------------------------------------------------------------------------------------
// C20 / C25: crash oracles (worker death is detected by the runner)

func oracleNoCrash(prop string) func(v *View, vd *Verdict) {
	return func(v *View, vd *Verdict) {
		vd.Trigger = true
		// a run that ends here did not crash; additionally, nothing may be left dead-locked on a lock
		if v.R.MutexWaiters > 0 {
			vd.Add(prop, prop+"/goroutines-blocked-on-lock-at-end", "%d goroutines still wait for a lock at the end of the run", v.R.MutexWaiters)
		}
	}
}

func garbage(g *Gen) []byte {
	switch g.Intn(12) {
	case 0:
		return g.Bytes(0, 2)
	case 1:
		return []byte{byte([]int{0, 1, 2, 3, 4, 255}[g.Intn(6)]), byte(g.U64())}
	case 2:
		return []byte{1, byte(g.U64())}
	case 3:
		return []byte{1, byte(g.U64()), byte(g.U64())}
	case 4: // long form announcing anything
		b := []byte{1, byte(g.Intn(3)), byte(g.U64()), refsn.AllTypes[g.Intn(len(refsn.AllTypes))]}
		return append(b, g.Bytes(0, 6)...)
	case 5: // valid header, random short body
		t := refsn.AllTypes[g.Intn(len(refsn.AllTypes))]
		body := g.Bytes(0, 6)
		return append([]byte{byte(len(body) + 2), t}, body...)
	case 6: // AUTH with method length near 255
		ml := byte([]int{250, 253, 254, 255}[g.Intn(4)])
		body := append([]byte{0, ml}, g.Bytes(0, 8)...)
		return append([]byte{byte(len(body) + 2), refsn.AUTH}, body...)
	case 7: // length field lies
		t := refsn.AllTypes[g.Intn(len(refsn.AllTypes))]
		body := g.Bytes(0, 10)
		return append([]byte{byte(g.U64()), t}, body...)
	case 8:
		return g.Bytes(3, 40)
	default:
		// a valid encoding of a well-formed packet, then one structural lie
		b := validPkt(g).Encode()
		switch g.Intn(6) {
		case 0: // announced length smaller than the fixed part / than the datagram
			if len(b) > 0 && b[0] != 1 {
				b[0] = byte(g.Intn(9))
			}
		case 1: // announced length larger than the datagram
			if len(b) > 0 && b[0] != 1 {
				b[0] = byte(len(b) + 1 + g.Intn(20))
			}
		case 2: // truncated anywhere
			b = b[:g.Intn(len(b)+1)]
		case 3: // trailing octets
			b = append(b, g.Bytes(1, 6)...)
		case 4: // same body behind the 3-octet form with a lying length
			if len(b) >= 2 && b[0] != 1 {
				b = append([]byte{1, 0, byte(g.Intn(12))}, b[1:]...)
			}
		case 5: // another type's body
			if len(b) >= 2 && b[0] != 1 {
				b[1] = refsn.AllTypes[g.Intn(len(refsn.AllTypes))]
			}
		}
		return b
	}
}

// validPkt: a well-formed packet of a random type with small random fields.
func validPkt(g *Gen) refsn.Pkt {
	name := []string{"t/a", "ab", "x", "long/topic/name"}[g.Intn(4)]
	switch g.Intn(12) {
	case 0:
		return refsn.Pkt{Type: refsn.PUBLISH, TIT: uint8(g.Intn(3)), TopicID: uint16(g.Intn(300)), QoS: uint8(g.Intn(4)), MsgID: uint16(g.Intn(70000)), Data: g.Bytes(0, 12)}
	case 1:
		return refsn.Pkt{Type: refsn.CONNECT, ProtocolID: 1, Duration: uint16(g.Intn(100)), ClientID: name, Will: g.Bool(0.5), Clean: g.Bool(0.5)}
	case 2:
		return refsn.Pkt{Type: refsn.REGISTER, TopicID: uint16(g.Intn(300)), MsgID: uint16(g.Intn(70000)), TopicName: name}
	case 3:
		return refsn.Pkt{Type: refsn.SUBSCRIBE, TIT: refsn.TITNormal, MsgID: uint16(g.Intn(70000)), TopicName: name, QoS: uint8(g.Intn(3))}
	case 4:
		return refsn.Pkt{Type: refsn.UNSUBSCRIBE, TIT: refsn.TITNormal, MsgID: uint16(g.Intn(70000)), TopicName: name}
	case 5:
		return refsn.Pkt{Type: refsn.WILLTOPIC, TopicName: name, QoS: uint8(g.Intn(3)), Will: true}
	case 6:
		return refsn.Pkt{Type: refsn.WILLMSG, Data: g.Bytes(0, 12)}
	case 7:
		return refsn.Pkt{Type: refsn.AUTH, AuthMethod: "PLAIN", Data: refsn.PlainAuth("u", []byte("p"))}
	case 8:
		return refsn.Pkt{Type: refsn.PINGREQ, Data: []byte(name)}
	case 9:
		return refsn.Pkt{Type: refsn.DISCONNECT, HasDur: g.Bool(0.5), Duration: uint16(g.Intn(50))}
	case 10:
		return refsn.Pkt{Type: []byte{refsn.PUBACK, refsn.REGACK}[g.Intn(2)], TopicID: uint16(g.Intn(300)), MsgID: uint16(g.Intn(70000))}
	default:
		return refsn.Pkt{Type: []byte{refsn.PUBREC, refsn.PUBREL, refsn.PUBCOMP, refsn.SUBACK, refsn.UNSUBACK, refsn.CONNACK, refsn.PINGRESP}[g.Intn(7)], MsgID: uint16(g.Intn(70000))}
	}
}

func genC20(g *Gen, idx int) *Plan {
	if idx%3 == 2 {
		// garbage into the client library's receive loop
		p, cp := g.clBase("C20-client")
		cp.Ops = []ClientOp{{Op: "dial"}, {Op: "connect"}, {GapMs: 2000, Op: "ping"}, {GapMs: 100, Op: "disconnect"}}
		if g.Bool(0.5) {
			cp.Ops = append(cp.Ops[:2], append([]ClientOp{{GapMs: 100, Op: "sleep", DurMs: 3000}}, cp.Ops[2:]...)...)
		}
		for k := 0; k < int(g.Range(1, 3)); k++ {
			p.SGW.Ops = append(p.SGW.Ops, PeerOp{AtMs: g.Range(0, 2500), Pkt: refsn.Pkt{Raw: garbage(g)}})
		}
		p.Cfg.HorizonMs = 9000
		return p
	}
	cfg := g.BaseCfg()
	cfg.Sched = g.Sched("gateway/handler1.go")
	cfg.Auth = g.Bool(0.3)
	p := &Plan{Family: "C20-gateway", Cfg: cfg}
	sg := &sessGen{g: g, cid: "c1"}
	lifeScript(g, sg, g.Intn(7))
	sg.gap(1, 600)
	for k := 0; k < int(g.Range(1, 3)); k++ {
		sg.add(refsn.Pkt{Raw: garbage(g)})
		sg.gap(1, 300)
	}
	p.Peers = []PeerPlan{{Name: "p1", Ops: sg.ops, Policy: PeerPolicy{NoWait: true}}}
	p.Cfg.HorizonMs = sg.t + 2000
	return p
}

// c20Grid: header-versus-size grid — every message type x announced length 0..14 x actual body size
// 0..14 x {1-octet, 3-octet length form} x two body patterns (25,200 datagrams): the length field lies
// in both directions around every type's fixed part.
const c20GridN = 28 * 15 * 15 * 2 * 2

func c20Grid(k int) []byte {
	pat := k % 2
	k /= 2
	long := k%2 == 1
	k /= 2
	blen := k % 15
	k /= 15
	announced := k % 15
	k /= 15
	typ := refsn.AllTypes[k%len(refsn.AllTypes)]
	body := make([]byte, blen)
	for i := range body {
		if pat == 1 {
			body[i] = byte(i + 1)
		}
	}
	if long {
		return append([]byte{1, 0, byte(announced), typ}, body...)
	}
	return append([]byte{byte(announced), typ}, body...)
}

// enumC20: every datagram of length <= 2 into a fresh session, then the header-versus-size grid
// (thorough tier: all 65,793 + 25,200; quick: a spread of both).
func enumC20(tier string, idx int) *Plan {
	total := 1 + 256 + 65536
	limit := 1200
	if tier == "thorough" {
		limit = total
	}
	var raw []byte
	k := idx
	switch {
	case idx < limit:
		if tier != "thorough" {
			k = int(uint64(idx) * 2654435761 % uint64(total))
		}
		switch {
		case k == 0:
			raw = []byte{}
		case k <= 256:
			raw = []byte{byte(k - 1)}
		default:
			k -= 257
			raw = []byte{byte(k >> 8), byte(k)}
		}
	case tier == "thorough" && idx < limit+c20GridN:
		k = idx - limit
		raw = c20Grid(k)
	case tier != "thorough" && idx < limit+1800:
		k = int(uint64(idx-limit) * 2654435761 % uint64(c20GridN))
		raw = c20Grid(k)
	default:
		return nil
	}
	g := &Gen{Rng: newRng(uint64(idx) + 5), Tier: tier}
	cfg := g.BaseCfg()
	cfg.HorizonMs = 1500
	cfg.DrainMs = 300
	p := &Plan{Family: "C20-enum-len<=2", Cfg: cfg}
	ops := []PeerOp{}
	if k%2 == 0 {
		ops = append(ops, PeerOp{AtMs: 10, Pkt: connectPkt("c1", 30, false, true)})
	}
	ops = append(ops, PeerOp{AtMs: 600, Pkt: refsn.Pkt{Raw: raw}})
	p.Peers = []PeerPlan{{Name: "p1", Ops: ops, Policy: PeerPolicy{NoWait: true}}}
	return p
}

func genC25(g *Gen, idx int) *Plan {
	switch idx % 3 {
	case 0: // raw peer -> gateway: valid encodings of every type in any state, ids aimed at transactions of the wrong type
		cfg := g.BaseCfg()
		cfg.Sched = g.Sched("gateway/")
		cfg.Auth = g.Bool(0.3)
		cfg.Predefined = g.PredefWithFilters([]string{"c1"})
		cfg.RetryDelayMs = g.Range(200, 2000)
		p := &Plan{Family: "C25-peer-fuzz", Cfg: cfg}
		sg := &sessGen{g: g, cid: "c1"}
		if g.Bool(0.8) {
			sg.gap(5, 300)
			ka := uint16(g.Range(1, 60))
			if g.Bool(0.4) {
				ka = uint16(g.Range(1, 3))
			}
			sg.add(connectPkt("c1", ka, g.Bool(0.3), true))
			sg.gap(100, 900)
		}
		n := int(g.Range(3, 25))
		sleepy := g.Bool(0.3)
		for i := 0; i < n; i++ {
			switch {
			case sleepy && g.Bool(0.15):
				// short sleeps (longer and shorter than small keep-alives) left early in every way: the
				// timers they arm fire later, whatever the session does meanwhile
				sg.add(refsn.Pkt{Type: refsn.DISCONNECT, HasDur: true, Duration: uint16(g.Range(1, 5))})
				sg.gap(50, 1500)
				switch g.Intn(4) {
				case 0:
					sg.add(connectPkt("c1", uint16(g.Range(1, 4)), false, g.Bool(0.5)))
				case 1:
					sg.add(refsn.Pkt{Type: refsn.PINGREQ, Data: []byte("c1")})
				case 2:
					sg.add(refsn.Pkt{Type: refsn.DISCONNECT, HasDur: true, Duration: uint16(g.Range(1, 3))})
				}
			case g.Bool(0.5):
				sg.add(preConnectPkt(g, g.Intn(nPreConnect)))
			default:
				sg.activeOp(sessOpts{Weird: 0.4})
			}
			sg.gap(0, 400)
		}
		if sleepy {
			sg.t += 6000 // let every timer armed on the way fire
		}
		p.Peers = []PeerPlan{{Name: "p1", Ops: sg.ops, Policy: PeerPolicy{NoWait: true, WillTopic: "w", WillMsg: []byte("x")}}}
		p.Broker.Injects = g.injects("p1", int(g.Range(0, 8)), 300, sg.t+300, "b")
		for k := range p.Broker.Injects {
			p.Broker.Injects[k].ID = uint16(g.Range(1, 12)) // collide with the peer's small ids
		}
		switch g.Intn(6) {
		case 0: // the gateway's writes to the client start to fail (the client's port is gone)
			p.Cfg.SN.Rules = append(p.Cfg.SN.Rules, Rule{Dir: "g2c", Skip: int(g.Range(0, 8)), Count: int(g.Range(1, 1000)), Act: "werr"})
		case 1: // the broker stops reading for a while
			p.Broker.Faults = append(p.Broker.Faults, BrokerFault{AtMs: g.Range(300, sg.t+300), Session: "p1", Kind: "backpressure", Cap: int(g.Range(0, 30)), DurMs: g.Range(120, 3000)})
		case 2: // the broker cannot be reached: every session's dial is refused or times out
			p.Broker.DialFail = []string{"refuse", "timeout"}[g.Intn(2)]
		}
		p.Cfg.HorizonMs = sg.t + 3000
		return p
	case 1: // adversarial broker -> gateway
		cfg := g.BaseCfg()
		cfg.Sched = g.Sched("gateway/")
		p := &Plan{Family: "C25-broker-fuzz", Cfg: cfg}
		sg := &sessGen{g: g, cid: "c1"}
		sg.session(sessOpts{N: int(g.Range(2, 8)), KA: 30, NoDisc: true, Sleep: 0.1}, false)
		p.Peers = []PeerPlan{{Name: "p1", Ops: sg.ops}}
		for k := 0; k < int(g.Range(1, 6)); k++ {
			var raw []byte
			id := uint16(g.Range(0, 8))
			switch g.Intn(12) {
			case 0:
				raw = refmqtt.Pkt{Type: refmqtt.SUBACK, ID: id}.Encode() // no return code
			case 1:
				raw = refmqtt.Pkt{Type: refmqtt.SUBACK, ID: id, Codes: []byte{0, 1, 2}}.Encode()
			case 2:
				raw = []byte{0x36, 0x05, 0x00, 0x01, 'a', 0x00, 0x01} // PUBLISH QoS 3
			case 3:
				raw = refmqtt.Pkt{Type: refmqtt.CONNACK, RC: byte(g.Intn(6))}.Encode()
			case 4:
				raw = refmqtt.Pkt{Type: refmqtt.PUBREL, ID: id}.Encode()
			case 5:
				raw = refmqtt.Pkt{Type: refmqtt.PUBACK, ID: id}.Encode()
			case 6:
				raw = refmqtt.Pkt{Type: refmqtt.PUBLISH, Topic: "", Payload: []byte("x")}.Encode()
			case 7:
				raw = []byte{0xf0, 0x00} // reserved type 15
			case 8:
				raw = []byte{0x30, 0xff, 0xff, 0xff, 0xff, 0x7f} // malformed remaining length
			case 9:
				raw = refmqtt.Pkt{Type: refmqtt.PUBLISH, Topic: "t/" + strings.Repeat("x", int(g.Range(0, 300))), Payload: g.Bytes(0, 9000), QoS: uint8(g.Intn(3)), ID: id}.Encode()
			case 10:
				raw = []byte{0x10, 0x00} // CONNECT from the broker, empty
			default:
				raw = g.Bytes(1, 12)
			}
			p.Broker.Faults = append(p.Broker.Faults, BrokerFault{AtMs: g.Range(400, sg.t+200), Session: "p1", Kind: "raw", Raw: raw})
		}
		p.Cfg.HorizonMs = sg.t + 3000
		return p
	default: // scripted gateway -> client library
		p, cp := g.clBase("C25-client-fuzz")
		if g.Bool(0.5) {
			cp.KeepAliveMs = g.Range(1, 5) * 1000
		}
		cp.Ops = []ClientOp{{Op: "dial"}, {Op: "connect"}, {GapMs: 100, Op: "subscribe", Topic: "t/#", QoS: 2}, {GapMs: 300, Op: "register", Topic: "t/a"},
			{GapMs: 300, Op: "publish", Topic: "t/a", QoS: uint8(g.Intn(3)), Payload: []byte("x")}, {GapMs: 500, Op: "sleep", DurMs: 2000}, {GapMs: 100, Op: "disconnect"}}
		for k := 0; k < int(g.Range(2, 12)); k++ {
			t := refsn.AllTypes[g.Intn(len(refsn.AllTypes))]
			pk := refsn.Pkt{Type: t, MsgID: uint16(g.Range(0, 6)), TopicID: uint16(g.Range(0, 4)), TopicName: []string{"u/t", "", "t/a"}[g.Intn(3)], Data: g.Bytes(0, 5),
				QoS: uint8(g.Intn(4)), TIT: uint8(g.Intn(4)), AuthMethod: "PLAIN", RC: byte(g.Intn(4)), Dup: g.Bool(0.3), Retain: g.Bool(0.3), HasDur: g.Bool(0.3), Duration: uint16(g.Intn(3))}
			p.SGW.Ops = append(p.SGW.Ops, PeerOp{AtMs: g.Range(0, 4000), Pkt: pk})
		}
		p.Cfg.HorizonMs = 15000
		return p
	}
}

func init() {
	Register(&Check{ID: "C06", Level: "exploration",
		Rule:   "gateway side: a raw peer's PUBLISH QoS 1/2 or SUBSCRIBE with id m is held open by a slow broker while the broker starts PUBLISH QoS 1/2 (with and without REGISTER step) with the same id m (incl. 0xFFFF/0xFFFE, the ids the gateway itself picks for the REGISTER before a QoS 0 publish, with such publishes in flight), or the peer reuses the id of its QoS 1 PUBLISH the moment the PUBACK is in (reactive peer), or the collision happens around a sleep (request, DISCONNECT(d), the broker's packet and then the reply queued, first copy after the wake-up lost), or the peer retransmits its QoS 1 PUBLISH before the gateway gave up on the first copy and the broker's PUBACK comes within the second exchange's time only (superseded exchange); client side: Publish QoS 1/2, Register or Subscribe of the real client (id 2) is held open by a delayed acknowledgement while the scripted gateway starts PUBLISH QoS 1/2 or REGISTER with id 2; both exchanges must complete; non-trivial = two exchanges with equal id overlapping in time",
		Gen:    genC06, Oracle: oracleC06, Quick: 2000, Thorough: 160000})
	Register(&Check{ID: "C15", Level: "exploration",
		Rule:   "2-4 concurrent raw peers with independent keyed workloads, credentials, registrations, malformed packets and deaths; structural oracle (one broker connection per session, no tagged payload/client id/credential of peer i on peer j's links) in every run; differential oracle in every second run (yield density 0): each peer's per-channel trace alone must equal its trace next to the others (two solo executions must agree, else the comparison is void); non-trivial = >= 2 peers",
		Gen:    genC15, Oracle: oracleC15, Quick: 400, Thorough: 20000,
		Post: func(t *testing.T, r *Result, vd *Verdict) { diffC15(t, r, vd) },
		Assumptions: []string{"one session per peer address is pion/udp's job (stubbed by the simulated listener)"}})
	Register(&Check{ID: "C20", Level: "exploration",
		Rule:   "fault-injection reading only: corrupted/truncated/garbage datagrams are injected into live gateway sessions (7 session states) and into the client library's receive loop; every datagram of length <= 2 is injected into a fresh session, then a header-versus-size grid (every type x announced length 0-14 x body size 0-14 x both length forms x two patterns, 25,200 datagrams) (quick: a 3,000-datagram spread; thorough: all 90,993), then structured garbage (3-octet length forms, AUTH method lengths 250-255, lying length fields, random bodies, valid encodings of every packet kind with one structural lie: announced length too small/too large, truncation, trailing octets, 3-octet form, foreign type); oracle: the worker process does not crash; non-trivial = every run",
		Enum:   enumC20, Gen: genC20, Oracle: oracleNoCrash("C20"), Quick: 4500, Thorough: 130000})
	Register(&Check{ID: "C25", Level: "exploration",
		Rule:   "stateful fuzzing in three directions with valid encodings: raw peer -> gateway (every packet type in any state, ids colliding with broker-initiated transactions), adversarial broker -> gateway (SUBACK without/with several codes, QoS 3, CONNACK mid-session, unknown ids, reserved type, malformed length, huge topic/payload), scripted gateway -> client library (every packet type with random fields); all yield sites eligible; oracle: no worker crash; non-trivial = every run",
		Gen:    genC25, Oracle: oracleNoCrash("C25"), Quick: 1500, Thorough: 120000})
}
