package world

import (
	"fmt"
	"strings"

	"verifsim/refmqtt"
	"verifsim/refsn"
	"verifsim/simrt"
)

// Event kinds of a session view.
const (
	EvC2G      = "c2g"      // gateway read a datagram from the client
	EvG2C      = "g2c"      // gateway wrote a datagram to the client
	EvG2CErr   = "g2c-werr" // gateway tried to write a datagram to the client, the write failed
	EvG2B      = "g2b"      // gateway wrote a complete MQTT packet to the broker
	EvB2G      = "b2g"      // broker model sent an MQTT packet to the gateway
	EvB2GRx    = "b2g-rx"   // gateway read bytes from the broker connection (not packetised)
	EvAccept   = "accept"   // session accepted
	EvEnd      = "end"      // gateway closed the client conn
	EvMqClose  = "mq-close" // gateway closed the broker conn
	EvMqDial   = "mq-dial"  // broker conn established
	EvMqDialX  = "mq-dial-fail"
	EvBClose   = "b-close" // broker closed the connection (S = fin|rst)
	EvBFin     = "b-fin"   // FIN/RST delivered to the gateway
	EvPeerTx   = "peer-tx" // raw peer sent a datagram
	EvPeerRx   = "peer-rx" // raw peer / real client received a datagram
	EvDrop     = "drop"
	EvShutdown = "shutdown"
)

// Ev is one decoded event.
type Ev struct {
	Idx  int // index in Result.Hist (execution order)
	T    int64
	Kind string
	Raw  []byte
	SN   refsn.Pkt
	SNErr error
	MQ   refmqtt.Pkt
	S    string
}

func (e Ev) String() string {
	switch e.Kind {
	case EvC2G, EvG2C, EvPeerTx, EvPeerRx:
		if e.SNErr != nil {
			return fmt.Sprintf("%s UNDECODABLE(%x)", e.Kind, trunc(e.Raw, 12))
		}
		return e.Kind + " " + e.SN.String()
	case EvG2B, EvB2G:
		return e.Kind + " " + e.MQ.String()
	}
	return e.Kind + " " + e.S
}

func trunc(b []byte, n int) []byte {
	if len(b) > n {
		return b[:n]
	}
	return b
}

// SessView is everything that happened in one gateway session, in execution order.
type SessView struct {
	Name, Peer string
	Evs        []Ev
	AcceptT    int64
	EndT       int64 // -1 if the gateway never closed the client conn
	EndIdx     int
	MqCloseT   int64 // -1 if never
	MqCloseIdx int
	Dialed     bool
}

// View is the decoded history.
type View struct {
	R        *Result
	Sess     []*SessView
	ByName   map[string]*SessView
	Shutdown []Ev // gateway shutdown markers
	Other    map[string][]simrt.Rec // channel -> records (api:, handler:, sgw:, cl.sn:, tx, txt:, peer:, broker:will ...)
}

func sessOf(ch, prefix string) (string, string, bool) {
	if !strings.HasPrefix(ch, prefix) {
		return "", "", false
	}
	rest := ch[len(prefix):]
	dir := ""
	if n := len(rest); n > 0 && (rest[n-1] == '>' || rest[n-1] == '<') {
		dir = rest[n-1:]
		rest = rest[:n-1]
	}
	return rest, dir, true
}

// BuildView decodes the history once; oracles share it.
func BuildView(r *Result) *View {
	v := &View{R: r, ByName: map[string]*SessView{}, Other: map[string][]simrt.Rec{}}
	get := func(name string) *SessView {
		if sv, ok := v.ByName[name]; ok {
			return sv
		}
		sv := &SessView{Name: name, Peer: peerOf(name), EndT: -1, MqCloseT: -1, EndIdx: -1, MqCloseIdx: -1}
		v.ByName[name] = sv
		v.Sess = append(v.Sess, sv)
		return sv
	}
	parsers := map[string]*refmqtt.Parser{}
	// raw peers are attributed to their current session epoch
	curSess := map[string]string{}
	for i, rec := range r.Hist {
		ch := rec.Ch
		switch {
		case strings.HasPrefix(ch, "sess:"):
			name := ch[5:]
			sv := get(name)
			if rec.Kind == "accept" {
				sv.AcceptT = rec.T
				curSess[sv.Peer] = name
				sv.Evs = append(sv.Evs, Ev{Idx: i, T: rec.T, Kind: EvAccept})
			} else if rec.Kind == "end" {
				sv.EndT, sv.EndIdx = rec.T, i
				sv.Evs = append(sv.Evs, Ev{Idx: i, T: rec.T, Kind: EvEnd})
			}
		case strings.HasPrefix(ch, "gw.sn:"):
			name, dir, _ := sessOf(ch, "gw.sn:")
			sv := get(name)
			switch {
			case dir == "<" && rec.Kind == "rx":
				p, err := refsn.Decode(rec.B)
				sv.Evs = append(sv.Evs, Ev{Idx: i, T: rec.T, Kind: EvC2G, Raw: rec.B, SN: p, SNErr: err})
			case dir == ">" && rec.Kind == "tx":
				p, err := refsn.Decode(rec.B)
				sv.Evs = append(sv.Evs, Ev{Idx: i, T: rec.T, Kind: EvG2C, Raw: rec.B, SN: p, SNErr: err})
			case dir == ">" && rec.Kind == "tx-error":
				p, err := refsn.Decode(rec.B)
				sv.Evs = append(sv.Evs, Ev{Idx: i, T: rec.T, Kind: EvG2CErr, Raw: rec.B, SN: p, SNErr: err})
			}
		case strings.HasPrefix(ch, "gw.mq:"):
			name, dir, _ := sessOf(ch, "gw.mq:")
			sv := get(name)
			switch {
			case dir == ">" && rec.Kind == "tx":
				ps := parsers[name]
				if ps == nil {
					ps = &refmqtt.Parser{}
					parsers[name] = ps
				}
				for _, p := range ps.Feed(rec.B) {
					sv.Evs = append(sv.Evs, Ev{Idx: i, T: rec.T, Kind: EvG2B, MQ: p})
				}
			case dir == ">" && rec.Kind == "close":
				sv.MqCloseT, sv.MqCloseIdx = rec.T, i
				sv.Evs = append(sv.Evs, Ev{Idx: i, T: rec.T, Kind: EvMqClose})
			case dir == "<" && (rec.Kind == "fin" || rec.Kind == "rst"):
				sv.Evs = append(sv.Evs, Ev{Idx: i, T: rec.T, Kind: EvBFin, S: rec.Kind})
			case dir == "<" && rec.Kind == "rx":
				sv.Evs = append(sv.Evs, Ev{Idx: i, T: rec.T, Kind: EvB2GRx, Raw: rec.B})
			}
		case strings.HasPrefix(ch, "mq:"):
			sv := get(ch[3:])
			if rec.Kind == "dial-ok" {
				sv.Dialed = true
				sv.Evs = append(sv.Evs, Ev{Idx: i, T: rec.T, Kind: EvMqDial})
			} else {
				sv.Evs = append(sv.Evs, Ev{Idx: i, T: rec.T, Kind: EvMqDialX, S: rec.S})
			}
		case strings.HasPrefix(ch, "broker:") && ch != "broker:will":
			name, dir, _ := sessOf(ch, "broker:")
			sv := get(name)
			if dir == ">" && rec.Kind == "pkt" {
				p, ok := refmqtt.DecodeServer(rec.B)
				if !ok {
					p = refmqtt.Pkt{Type: 0}
				}
				sv.Evs = append(sv.Evs, Ev{Idx: i, T: rec.T, Kind: EvB2G, MQ: p, Raw: rec.B, S: rec.S})
			} else if dir == ">" && rec.Kind == "close" {
				sv.Evs = append(sv.Evs, Ev{Idx: i, T: rec.T, Kind: EvBClose, S: rec.S})
			} else {
				v.Other[ch] = append(v.Other[ch], rec)
			}
		case strings.HasPrefix(ch, "peer:"):
			name, dir, _ := sessOf(ch, "peer:")
			if dir == "" {
				v.Other[ch] = append(v.Other[ch], rec)
				break
			}
			sn := curSess[name]
			if sn == "" {
				sn = name + "#0"
			}
			// a datagram sent after the gateway closed the session starts the next epoch
			sv := get(sn)
			if dir == ">" && sv.EndT >= 0 {
				sn = fmt.Sprintf("%s#%d", name, epochOf(sn)+1)
				sv = get(sn)
				curSess[name] = sn
			}
			p, err := refsn.Decode(rec.B)
			k := EvPeerRx
			if dir == ">" {
				k = EvPeerTx
			}
			sv.Evs = append(sv.Evs, Ev{Idx: i, T: rec.T, Kind: k, Raw: rec.B, SN: p, SNErr: err, S: rec.S})
		case strings.HasPrefix(ch, "cl.sn:"):
			name, dir, _ := sessOf(ch, "cl.sn:")
			v.Other[ch] = append(v.Other[ch], rec)
			if dir == "<" && rec.Kind == "rx" {
				sn := curSess[name]
				if sn != "" {
					p, err := refsn.Decode(rec.B)
					sv := get(sn)
					sv.Evs = append(sv.Evs, Ev{Idx: i, T: rec.T, Kind: EvPeerRx, Raw: rec.B, SN: p, SNErr: err})
				}
			}
		case strings.HasPrefix(ch, "link:"):
			v.Other[ch] = append(v.Other[ch], rec)
		case ch == "gw" && rec.Kind == "shutdown":
			v.Shutdown = append(v.Shutdown, Ev{Idx: i, T: rec.T, Kind: EvShutdown, S: rec.S})
			for _, sv := range v.Sess {
				sv.Evs = append(sv.Evs, Ev{Idx: i, T: rec.T, Kind: EvShutdown})
			}
		default:
			v.Other[ch] = append(v.Other[ch], rec)
		}
	}
	return v
}

func epochOf(sess string) int {
	i := strings.LastIndex(sess, "#")
	n := 0
	fmt.Sscanf(sess[i+1:], "%d", &n)
	return n
}

// Dump renders the execution-order history for humans (replay files, debugging).
func Dump(r *Result, max int) []string {
	var out []string
	for i, rec := range r.Hist {
		if max > 0 && i >= max {
			out = append(out, fmt.Sprintf("... %d more", len(r.Hist)-i))
			break
		}
		s := rec.String()
		if len(s) > 220 {
			s = s[:220] + "…"
		}
		out = append(out, s)
	}
	return out
}
