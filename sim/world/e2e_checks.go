package world

import (
	"bytes"
	"fmt"
	"strings"

	"verifsim/refmqtt"
	"verifsim/refsn"
)

// brokerRx lists MQTT packets the gateway wrote for the sessions of one client/peer.
func brokerRx(v *View, peer string) []Ev {
	var out []Ev
	for _, sv := range v.Sess {
		if sv.Peer != peer {
			continue
		}
		for _, e := range sv.Evs {
			if e.Kind == EvG2B {
				out = append(out, e)
			}
		}
	}
	return out
}

func brokerTx(v *View, peer string) []Ev {
	var out []Ev
	for _, sv := range v.Sess {
		if sv.Peer != peer {
			continue
		}
		for _, e := range sv.Evs {
			if e.Kind == EvB2G {
				out = append(out, e)
			}
		}
	}
	return out
}

func descQoS(desc string) uint8 {
	i := strings.Index(desc, "qos=")
	if i < 0 {
		return 0
	}
	var q int
	fmt.Sscanf(desc[i+4:], "%d", &q)
	return uint8(q)
}

func descID(desc string) uint16 {
	i := strings.Index(desc, "id=")
	var n int
	if i >= 0 {
		fmt.Sscanf(desc[i+3:], "%d", &n)
	}
	return uint16(n)
}

// ---------------------------------------------------------------------------------------------
// C26: bisquitt client and gateway interoperate for any API usage (lossless)

func oracleC26(v *View, vd *Verdict) {
	cfg := &v.R.Plan.Cfg
	for ci := range v.R.Plan.Clients {
		cp := &v.R.Plan.Clients[ci]
		calls := apiCalls(v)
		brx := brokerRx(v, cp.Name)
		btx := brokerTx(v, cp.Name)
		hc := handlerCalls(v, cp.Name)
		type sub struct {
			filter           string
			from, until, inv int
		}
		var subs []*sub
		cyclesSlept := 0
		for _, a := range calls {
			if a.client != cp.Name {
				continue
			}
			vd.Trigger = true
			bound := apiBound(v.R.Plan, cp, a) + v.R.StalledNs
			phase := "first-cycle"
			if cyclesSlept > 0 {
				phase = "after-sleep"
			}
			if a.op == "wait" {
				continue
			}
			if !a.returned {
				if v.R.SimNs-int64(6e9)-a.invT > bound {
					vd.Add("C26", fmt.Sprintf("C26/call-hangs/%s/%s", a.op, phase), "client %s: %s never returned", cp.Name, a.desc)
				}
				break // the program is stuck: later calls never started
			}
			if a.err != "nil" {
				vd.Add("C26", fmt.Sprintf("C26/call-failed/%s/%s", a.op, phase), "client %s: %s returned %q over a lossless link", cp.Name, a.desc, a.err)
				break // everything after a failed call is a consequence
			}
			if a.op == "sleep" {
				cyclesSlept++
			}
			// documented effect at the broker
			find := func(f func(m refmqtt.Pkt) bool) bool {
				for _, e := range brx {
					if e.Idx > a.invIdx && e.Idx < a.retIdx+1 && f(e.MQ) {
						return true
					}
				}
				return false
			}
			q := descQoS(a.desc)
			switch a.op {
			case "subscribe", "subscribe_pre":
				filter := unq(a.desc)
				hkey := filter
				if a.op == "subscribe_pre" {
					id := descID(a.desc)
					filter, _ = refPredefName(cfg.Predefined, cp.ClientID, id)
					hkey = fmt.Sprintf("pre:%d", id)
				}
				if !find(func(m refmqtt.Pkt) bool {
					return m.Type == refmqtt.SUBSCRIBE && len(m.Filters) == 1 && m.Filters[0] == filter && m.QoSs[0] == q
				}) {
					vd.Add("C26", "C26/effect-missing/"+a.op, "client %s: %s returned nil but the broker saw no SUBSCRIBE %q qos %d", cp.Name, a.desc, filter, q)
				}
				for _, o := range subs {
					if o.filter == hkey && o.until < 0 {
						o.until = a.invIdx
					}
				}
				subs = append(subs, &sub{filter: hkey, from: a.retIdx, until: -1, inv: a.invIdx})
				_ = filter
			case "unsubscribe", "unsubscribe_pre":
				filter := unq(a.desc)
				hkey := filter
				if a.op == "unsubscribe_pre" {
					id := descID(a.desc)
					filter, _ = refPredefName(cfg.Predefined, cp.ClientID, id)
					hkey = fmt.Sprintf("pre:%d", id)
				}
				if !find(func(m refmqtt.Pkt) bool {
					return m.Type == refmqtt.UNSUBSCRIBE && len(m.Filters) == 1 && m.Filters[0] == filter
				}) {
					vd.Add("C26", "C26/effect-missing/"+a.op, "client %s: %s returned nil but the broker saw no UNSUBSCRIBE %q", cp.Name, a.desc, filter)
				}
				for _, o := range subs {
					if o.filter == hkey && o.until < 0 {
						o.until = a.invIdx
					}
				}
			case "publish", "publish_pre":
				topic := unq(a.desc)
				if a.op == "publish_pre" {
					topic, _ = refPredefName(cfg.Predefined, cp.ClientID, descID(a.desc))
				}
				wq := q
				if wq == 3 {
					wq = 0
				}
				ok := false
				for _, e := range brx {
					m := e.MQ
					if e.Idx > a.invIdx && m.Type == refmqtt.PUBLISH && bytes.Equal(m.Payload, a.payload) {
						ok = true
						if m.Topic != topic || m.QoS != wq {
							vd.Add("C26", "C26/effect-wrong/"+a.op, "client %s: %s arrived at the broker as %s", cp.Name, a.desc, m.String())
						}
						break
					}
				}
				if !ok && v.R.SimNs-a.retT > int64(5e9) {
					vd.Add("C26", fmt.Sprintf("C26/effect-missing/%s/qos%d", a.op, q), "client %s: %s returned nil but the broker saw no such PUBLISH", cp.Name, a.desc)
				}
			case "disconnect":
				// (the gateway answers the client first and tells the broker right after: the DISCONNECT may
				// reach the broker a moment after the call has returned)
				seen := false
				for _, e := range brx {
					if e.Idx > a.invIdx && e.MQ.Type == refmqtt.DISCONNECT {
						seen = true
					}
				}
				if !seen {
					sent := false
					for _, t := range clientTx(v, cp.Name) {
						if t.Idx > a.invIdx && t.Idx < a.retIdx && t.SNErr == nil && t.SN.Type == refsn.DISCONNECT {
							sent = true
						}
					}
					if sent {
						vd.Add("C26", "C26/effect-missing/disconnect", "client %s: Disconnect returned nil but the broker saw no DISCONNECT", cp.Name)
					}
				}
			}
		}
		// every broker message matching a live subscription reaches that subscription's handler
		stopIdx := int(^uint(0) >> 1)
		stopT := int64(1) << 62
		for _, a := range calls {
			if a.client == cp.Name && (a.op == "disconnect" || a.op == "close" || (a.returned && a.err != "nil") || !a.returned) && a.invIdx < stopIdx {
				stopIdx = a.invIdx
				stopT = a.invT
			}
		}
		// an exchange needs its round trips (two through a slow broker for QoS 2) before the client leaves
		grace := 2*v.R.Plan.Broker.AnswerDelayMs*nsMs + int64(1e9) + v.R.StalledNs
		got := map[string]int{}
		for _, c := range hc {
			got[string(c.payload)]++
		}
		for _, e := range btx {
			m := e.MQ
			if m.Type != refmqtt.PUBLISH || e.Idx > stopIdx || e.T > stopT-grace || v.R.SimNs-e.T < int64(8e9) {
				continue
			}
			live := false
			for _, s := range subs {
				name := s.filter
				if strings.HasPrefix(name, "pre:") {
					var id int
					fmt.Sscanf(name, "pre:%d", &id)
					name, _ = refPredefName(cfg.Predefined, cp.ClientID, uint16(id))
				}
				if s.from < e.Idx && (s.until < 0 || s.until > stopIdx) && refmqtt.Match(name, m.Topic) {
					live = true
				}
			}
			if live && got[string(m.Payload)] == 0 {
				kind := "registered-or-known"
				if len(m.Topic) == 2 {
					kind = "short"
				} else if _, ok := refPredefAny(cfg.Predefined, cp.ClientID, m.Topic); ok {
					kind = "predefined"
				}
				burst := ""
				for _, e2 := range btx {
					if e2.Idx != e.Idx && e2.MQ.Type == refmqtt.PUBLISH && e2.MQ.Topic == m.Topic && abs64(e2.T-e.T) < int64(50e6) {
						burst = "/burst-on-same-topic"
					}
				}
				vd.Add("C26", fmt.Sprintf("C26/message-not-delivered-to-handler/qos%d/%s%s", m.QoS, kind, burst), "client %s: broker %s (t=%d) matches a live subscription but no handler ran", cp.Name, m.String(), e.T)
			}
		}
	}
}

func abs64(x int64) int64 {
	if x < 0 {
		return -x
	}
	return x
}

// genC26SleepNew: "repeated sleep cycles" x "not-yet-registered topics under a wildcard": the broker
// publishes on a new name while the client sleeps, and the client sleeps longer than the gateway's
// whole retry budget (the gateway's REGISTER must wait for it, not give up).
func genC26SleepNew(g *Gen) *Plan {
	cfg := g.BaseCfg()
	cfg.Sched = g.Sched("gateway/handler1.go", "gateway/broker_publish")
	cfg.SN.FIFO = true
	clRetry, clCount := cfg.RetryDelayMs, cfg.RetryCount
	cfg.RetryDelayMs, cfg.RetryCount = g.Range(150, 600), uint(g.Range(1, 2)) // the gateway's
	p := &Plan{Family: "C26-sleep-newtopic", Cfg: cfg}
	cp := ClientPlan{Name: "cl1", ClientID: "app1", Clean: true, ConnectTimeoutMs: 5000, RetryDelayMs: clRetry, RetryCount: clCount, StartMs: g.Range(1, 300)}
	cp.KeepAliveMs = g.Range(20, 60) * 1000
	filter := []string{"t/#", "n/+", "#"}[g.Intn(3)]
	ops := []ClientOp{{Op: "dial"}, {Op: "connect"}, {GapMs: g.Range(50, 400), Op: "subscribe", Topic: filter, QoS: uint8(g.Intn(3))}}
	t := cp.StartMs + 400 + 100 // (+ round trips)
	ncyc := int(g.Range(1, 3))
	k := 0
	for c := 0; c < ncyc; c++ {
		gap := g.Range(200, 900)
		d := g.Range(3, 7) * 1000
		t += gap
		ops = append(ops, ClientOp{GapMs: gap, Op: "sleep", DurMs: d})
		for j := 0; j < int(g.Range(1, 3)); j++ {
			k++
			topic := map[string][]string{"t/#": {"t/new1", "t/new2", "t/a"}, "n/+": {"n/7", "n/8"}, "#": {"t/new1", "n/7", "zz/q"}}[filter][g.Intn(2)]
			p.Broker.Injects = append(p.Broker.Injects, BrokerInject{AtMs: t + g.Range(150, 900), Topic: topic, Payload: serialPayload("sn", k, int(g.Range(0, 10))), QoS: uint8(g.Intn(3))})
		}
		t += d + 100
		if g.Bool(0.6) || c == ncyc-1 {
			ops = append(ops, ClientOp{GapMs: 50, Op: "connect"})
			t += 100
		}
	}
	t += 6000
	ops = append(ops, ClientOp{GapMs: 6000, Op: "disconnect"})
	cp.Ops = ops
	p.Clients = []ClientPlan{cp}
	p.Cfg.HorizonMs = t + 9000
	return p
}

func genC26(g *Gen, idx int) *Plan {
	if idx%8 == 7 {
		return genC26SleepNew(g)
	}
	cfg := g.BaseCfg()
	cfg.Sched = g.Sched("client/", "gateway/handler1.go", "gateway/broker_publish")
	// "a lossless link": nothing is lost and nothing overtakes. (When datagrams overtake each other a
	// PUBLISH can reach the client before the REGACK/SUBACK announcing its topic id, which no client can resolve.)
	cfg.SN.FIFO = true
	nc := 1
	if g.Bool(0.25) {
		nc = 2
	}
	var cids []string
	for i := 0; i < nc; i++ {
		cids = append(cids, fmt.Sprintf("app%d", i+1))
	}
	cfg.Predefined = g.UniquePredef(cids)
	p := &Plan{Family: "C26-api", Cfg: cfg}
	var total int64
	for i := 0; i < nc; i++ {
		cp := ClientPlan{Name: fmt.Sprintf("cl%d", i+1), ClientID: cids[i], Clean: true, ConnectTimeoutMs: 5000, RetryDelayMs: cfg.RetryDelayMs, RetryCount: cfg.RetryCount, UsePredefined: true, StartMs: g.Range(1, 300)}
		// (the gateway refuses a zero keep-alive by design, so the client always announces one)
		cp.KeepAliveMs = g.Range(8, 60) * 1000
		if g.Bool(0.2) {
			cp.WillTopic, cp.WillPayload, cp.WillQoS = "will/"+cids[i], []byte("gone"), uint8(g.Intn(3))
		}
		ops := []ClientOp{{Op: "dial"}, {Op: "connect"}}
		var registered, filters []string
		t := cp.StartMs
		n := int(g.Range(2, 10))
		sleeps := 0
		for k := 0; k < n; k++ {
			gap := g.Range(20, 1500)
			t += gap
			switch g.Intn(11) {
			case 0, 1:
				name := namePool[g.Intn(len(namePool))]
				registered = append(registered, name)
				ops = append(ops, ClientOp{GapMs: gap, Op: "register", Topic: name})
			case 2, 3:
				f := append(append([]string{}, wildPool...), namePool...)[g.Intn(len(wildPool)+len(namePool))]
				if g.Bool(0.2) {
					f = shortPool[g.Intn(len(shortPool))]
				}
				filters = append(filters, f)
				ops = append(ops, ClientOp{GapMs: gap, Op: "subscribe", Topic: f, QoS: uint8(g.Intn(3))})
			case 4:
				ops = append(ops, ClientOp{GapMs: gap, Op: "subscribe_pre", TopicID: visibleID(g, cfg.Predefined, cids[i]), QoS: uint8(g.Intn(3))})
			case 5, 6:
				if len(registered) == 0 {
					ops = append(ops, ClientOp{GapMs: gap, Op: "publish", Topic: shortPool[g.Intn(len(shortPool))], QoS: uint8(g.Intn(4)), Payload: serialPayload(cp.Name+"p", k, int(g.Range(0, 20)))})
				} else {
					ops = append(ops, ClientOp{GapMs: gap, Op: "publish", Topic: registered[g.Intn(len(registered))], QoS: uint8(g.Intn(4)), Retain: g.Bool(0.2), Payload: serialPayload(cp.Name+"p", k, int(g.Range(0, 300)))})
				}
			case 7:
				if len(filters) > 0 {
					ops = append(ops, ClientOp{GapMs: gap, Op: "unsubscribe", Topic: filters[g.Intn(len(filters))]})
				} else {
					ops = append(ops, ClientOp{GapMs: gap, Op: "ping"})
				}
			case 8:
				ops = append(ops, ClientOp{GapMs: gap, Op: "ping"})
			case 9:
				if sleeps < 2 {
					sleeps++
					d := g.Range(1, 4) * 1000
					ops = append(ops, ClientOp{GapMs: gap, Op: "sleep", DurMs: d})
					t += d
					if g.Bool(0.5) {
						d2 := g.Range(1, 3) * 1000
						ops = append(ops, ClientOp{GapMs: 50, Op: "sleep", DurMs: d2})
						t += d2
					}
					ops = append(ops, ClientOp{GapMs: 50, Op: "connect"})
				}
			case 10:
				ops = append(ops, ClientOp{GapMs: gap, Op: "publish_pre", TopicID: visibleID(g, cfg.Predefined, cids[i]), QoS: uint8(g.Intn(4)), Payload: serialPayload(cp.Name+"q", k, 3)})
			}
		}
		t += 6000
		ops = append(ops, ClientOp{GapMs: 6000, Op: "disconnect"})
		cp.Ops = ops
		p.Clients = append(p.Clients, cp)
		if t > total {
			total = t
		}
		// broker-side publishes routed by subscription, incl. bursts on unregistered topics
		ni := int(g.Range(0, 5))
		for k := 0; k < ni; k++ {
			topic := []string{"t/a", "t/b", "t/new1", "t/new2", "x/q/z", "n/7", "ab", "pre/1", "dev/9/temp"}[g.Intn(9)]
			in := BrokerInject{AtMs: g.Range(800, t-5000), Topic: topic, Payload: serialPayload(fmt.Sprintf("b%d.%d.", i, k), k, int(g.Range(0, 10))), QoS: uint8(g.Intn(3))}
			if g.Bool(0.25) {
				in.Burst = int(g.Range(1, 3))
			}
			p.Broker.Injects = append(p.Broker.Injects, in)
		}
	}
	// retained messages: the broker publishes them when a matching SUBSCRIBE arrives, some before the SUBACK
	if g.Bool(0.35) {
		for k := 0; k < int(g.Range(1, 3)); k++ {
			topic := append(append([]string{}, namePool...), "t/new1", "ab", "pre/1")[g.Intn(len(namePool)+3)]
			p.Broker.Retained = append(p.Broker.Retained, BrokerRetained{Topic: topic, Payload: serialPayload("r", k, int(g.Range(0, 10))), QoS: uint8(g.Intn(3)), Early: g.Bool(0.6)})
		}
	}
	if g.Bool(0.15) {
		p.Broker.AnswerDelayMs = g.Range(20, 400)
	}
	p.Cfg.HorizonMs = total + 9000
	return p
}

// ---------------------------------------------------------------------------------------------
// C32: short-topic and predefined routing is consistent between client and gateway

func oracleC32(v *View, vd *Verdict) {
	cfg := &v.R.Plan.Cfg
	for ci := range v.R.Plan.Clients {
		cp := &v.R.Plan.Clients[ci]
		brx := brokerRx(v, cp.Name)
		for _, a := range apiCalls(v) {
			if a.client != cp.Name || !a.returned || a.err != "nil" {
				continue
			}
			switch a.op {
			case "publish_pre", "publish":
				want := unq(a.desc)
				kind := "short"
				if a.op == "publish_pre" {
					var ok bool
					want, ok = refPredefName(cfg.Predefined, cp.ClientID, descID(a.desc))
					kind = "predefined"
					if !ok {
						continue
					}
				} else if len(want) != 2 {
					continue
				}
				for _, e := range brx {
					if e.MQ.Type == refmqtt.PUBLISH && bytes.Equal(e.MQ.Payload, a.payload) {
						vd.Trigger = true
						if e.MQ.Topic != want {
							vd.Add("C32", "C32/publish-arrives-under-other-name/"+kind, "client %s (%q): %s reached the broker as topic %q, the client's configuration says %q", cp.Name, cp.ClientID, a.desc, e.MQ.Topic, want)
						}
					}
				}
			case "subscribe_pre", "subscribe":
				want := unq(a.desc)
				kind := "short"
				if a.op == "subscribe_pre" {
					var ok bool
					want, ok = refPredefName(cfg.Predefined, cp.ClientID, descID(a.desc))
					kind = "predefined"
					if !ok {
						continue
					}
				} else if len(want) != 2 {
					continue
				}
				found := false
				var seen []string
				for _, e := range brx {
					if e.Idx > a.invIdx && e.Idx < a.retIdx && e.MQ.Type == refmqtt.SUBSCRIBE {
						seen = e.MQ.Filters
						if len(seen) == 1 && seen[0] == want {
							found = true
						}
					}
				}
				vd.Trigger = true
				if !found {
					vd.Add("C32", "C32/subscribe-arrives-under-other-name/"+kind, "client %s (%q): %s reached the broker as %q, the client's configuration says %q", cp.Name, cp.ClientID, a.desc, seen, want)
				}
			}
		}
		// broker -> client with a short or predefined id: delivered under the broker's name
		byPayload := map[string]refmqtt.Pkt{}
		for _, e := range brokerTx(v, cp.Name) {
			if e.MQ.Type == refmqtt.PUBLISH {
				byPayload[string(e.MQ.Payload)] = e.MQ
			}
		}
		rx := clientRx(v, cp.Name)
		tit := map[string]uint8{}
		for _, e := range rx {
			if e.SNErr == nil && e.SN.Type == refsn.PUBLISH {
				tit[string(e.SN.Data)] = e.SN.TIT
			}
		}
		for _, c := range handlerCalls(v, cp.Name) {
			m, ok := byPayload[string(c.payload)]
			if !ok {
				continue
			}
			t, ok := tit[string(c.payload)]
			if !ok || (t != refsn.TITShort && t != refsn.TITPredefined) {
				continue
			}
			vd.Trigger = true
			if c.topic != m.Topic {
				vd.Add("C32", "C32/delivered-under-other-name/"+titName(t), "client %s (%q): broker topic %q was delivered to the handler as %q", cp.Name, cp.ClientID, m.Topic, c.topic)
			}
		}
		// a message sent down with a predefined id the client cannot resolve kills the client: also a routing inconsistency
		for _, e := range rx {
			if e.SNErr == nil && e.SN.Type == refsn.PUBLISH && e.SN.TIT == refsn.TITPredefined {
				if _, ok := refPredefName(cfg.Predefined, cp.ClientID, e.SN.TopicID); !ok {
					vd.Add("C32", "C32/predefined-id-unknown-to-client", "client %s (%q): gateway sent predefined id %d which the shared configuration does not define for this client", cp.Name, cp.ClientID, e.SN.TopicID)
				}
			}
		}
	}
}

func genC32(g *Gen, idx int) *Plan {
	cfg := g.BaseCfg()
	cfg.Sched = g.Sched("client/", "gateway/handler1.go")
	cids := []string{"app1", "app2"}
	cfg.Predefined = g.Predef(cids) // overlapping client-specific / "*" entries, names unique per map
	p := &Plan{Family: "C32-shared-predef", Cfg: cfg}
	nc := 1 + g.Intn(2)
	var total int64
	for i := 0; i < nc; i++ {
		cp := ClientPlan{Name: fmt.Sprintf("cl%d", i+1), ClientID: cids[i], Clean: true, KeepAliveMs: 60000, ConnectTimeoutMs: 5000, RetryDelayMs: cfg.RetryDelayMs, RetryCount: cfg.RetryCount, UsePredefined: true, StartMs: g.Range(1, 300)}
		ops := []ClientOp{{Op: "dial"}, {Op: "connect"}}
		// ids visible to this client
		var ids []uint16
		for id := uint16(1); id <= 8; id++ {
			if _, ok := refPredefName(cfg.Predefined, cids[i], id); ok {
				ids = append(ids, id)
			}
		}
		t := cp.StartMs
		n := int(g.Range(2, 7))
		for k := 0; k < n; k++ {
			gap := g.Range(50, 900)
			t += gap
			switch {
			case len(ids) > 0 && g.Bool(0.35):
				ops = append(ops, ClientOp{GapMs: gap, Op: "publish_pre", TopicID: ids[g.Intn(len(ids))], QoS: uint8(g.Intn(4)), Payload: serialPayload(cp.Name+"p", k, 2)})
			case len(ids) > 0 && g.Bool(0.4):
				ops = append(ops, ClientOp{GapMs: gap, Op: "subscribe_pre", TopicID: ids[g.Intn(len(ids))], QoS: uint8(g.Intn(3))})
			case g.Bool(0.5):
				ops = append(ops, ClientOp{GapMs: gap, Op: "publish", Topic: shortPool[g.Intn(len(shortPool))], QoS: uint8(g.Intn(4)), Payload: serialPayload(cp.Name+"s", k, 2)})
			default:
				ops = append(ops, ClientOp{GapMs: gap, Op: "subscribe", Topic: shortPool[g.Intn(len(shortPool))], QoS: uint8(g.Intn(3))})
			}
		}
		t += 5000
		ops = append(ops, ClientOp{GapMs: 5000, Op: "disconnect"})
		cp.Ops = ops
		p.Clients = append(p.Clients, cp)
		if t > total {
			total = t
		}
	}
	// broker publishes on every predefined and short name
	names := []string{"pre/1", "pre/2", "pre/3", "pre/x/y", "ab", "cd", "zz", "a/"}
	for k := 0; k < int(g.Range(2, 8)); k++ {
		p.Broker.Injects = append(p.Broker.Injects, BrokerInject{AtMs: g.Range(600, total-4500), Topic: names[g.Intn(len(names))], Payload: serialPayload("b", k, 2), QoS: uint8(g.Intn(3))})
	}
	p.Cfg.HorizonMs = total + 6000
	return p
}

// ---------------------------------------------------------------------------------------------
// C16: QoS 1/2 delivery to clients survives datagram loss (real client, real gateway)

func oracleC16(v *View, vd *Verdict) {
	plan := v.R.Plan
	rc := int(plan.Cfg.RetryCount)
	// losses of a request and of its acknowledgement hit the same retry budget: sum them per flow step
	within := true
	step := map[string]string{"REGISTER": "reg", "REGACK": "reg", "PUBLISH": "pub", "PUBACK": "pub", "PUBREC": "pub", "PUBREL": "rel", "PUBCOMP": "rel"}
	lost := map[string]int{}
	for _, r := range plan.Cfg.SN.Rules {
		if r.Act == "drop" || r.Act == "werr" { // (a datagram whose write failed is a lost datagram)
			lost[step[r.Class]] += r.Count
		}
	}
	for _, n := range lost {
		if n > rc {
			within = false
		}
	}
	for ci := range plan.Clients {
		cp := &plan.Clients[ci]
		btx := brokerTx(v, cp.Name)
		brx := brokerRx(v, cp.Name)
		hc := handlerCalls(v, cp.Name)
		// gateway -> client datagrams of this client's sessions
		var g2c []Ev
		for _, sv := range v.Sess {
			if sv.Peer == cp.Name {
				for _, e := range sv.Evs {
					if e.Kind == EvG2C && e.SNErr == nil {
						g2c = append(g2c, e)
					}
				}
			}
		}
		for _, e := range btx {
			m := e.MQ
			if m.Type != refmqtt.PUBLISH || m.QoS == 0 {
				continue
			}
			vd.Trigger = true
			// copies of the PUBLISH on the client link
			var copies []refsn.Pkt
			for _, d := range g2c {
				if d.SN.Type == refsn.PUBLISH && bytes.Equal(d.SN.Data, m.Payload) {
					copies = append(copies, d.SN)
				}
			}
			for i, c := range copies {
				if c.MsgID != m.ID {
					vd.Add("C16", "C16/retransmission-id-changed", "client %s: broker id %d, copy %d carries id %d", cp.Name, m.ID, i, c.MsgID)
				}
				if i > 0 && !c.Dup {
					vd.Add("C16", "C16/retransmission-without-dup/PUBLISH", "client %s: copy %d of %s without DUP", cp.Name, i, c.String())
				}
				if i == 0 && c.Dup && !m.Dup {
					vd.Add("C16", "C16/dup-on-first-transmission", "client %s: first copy of %s carries DUP", cp.Name, c.String())
				}
			}
			if len(copies) > rc+1 {
				vd.Add("C16", "C16/more-retransmissions-than-budget/PUBLISH", "client %s: %d copies of %s with RetryCount %d", cp.Name, len(copies), m.String(), rc)
			}
			nh := 0
			for _, c := range hc {
				if bytes.Equal(c.payload, m.Payload) {
					nh++
				}
			}
			acked := func(t byte) int {
				n := 0
				for _, r := range brx {
					if r.MQ.Type == t && r.MQ.ID == m.ID && r.Idx > e.Idx {
						n++
					}
				}
				return n
			}
			tail := v.R.SimNs-e.T > int64(plan.Cfg.RetryDelayMs)*nsMs*int64(4*(rc+2))+int64(8e9)
			if !tail {
				continue
			}
			if m.QoS == 2 && nh > 1 {
				vd.Add("C16", "C16/qos2-handler-ran-twice", "client %s: handler ran %d times for QoS 2 message %q", cp.Name, nh, m.Payload)
			}
			if !within {
				continue
			}
			if nh == 0 {
				vd.Add("C16", fmt.Sprintf("C16/not-delivered-within-budget/qos%d", m.QoS), "client %s: %s never reached the handler although every loss pattern stays within RetryCount=%d", cp.Name, m.String(), rc)
			}
			if m.QoS == 1 && acked(refmqtt.PUBACK) == 0 {
				vd.Add("C16", "C16/broker-not-acked/qos1", "client %s: broker never received PUBACK(%d)", cp.Name, m.ID)
			}
			if m.QoS == 2 && (acked(refmqtt.PUBREC) == 0 || acked(refmqtt.PUBCOMP) == 0) {
				step := "PUBREC"
				if acked(refmqtt.PUBREC) > 0 {
					step = "PUBCOMP"
				}
				vd.Add("C16", "C16/broker-not-acked/qos2/"+step, "client %s: broker never received %s(%d)", cp.Name, step, m.ID)
			}
		}
	}
}

func genC16(g *Gen, idx int) *Plan {
	cfg := g.BaseCfg()
	cfg.Sched = g.Sched("gateway/broker_publish", "client/net.go", "transactions/")
	cfg.RetryDelayMs = g.Range(500, 2500)
	cfg.RetryCount = uint(g.Range(1, 3))
	cfg.SN.FIFO = true
	p := &Plan{Family: "C16-loss", Cfg: cfg}
	cp := ClientPlan{Name: "cl1", ClientID: "app1", Clean: true, KeepAliveMs: 120000, ConnectTimeoutMs: 5000, RetryDelayMs: cfg.RetryDelayMs, RetryCount: cfg.RetryCount}
	rc := int(cfg.RetryCount)
	span := int64(rc+2)*cfg.RetryDelayMs*4 + 3000
	nmsg := int(g.Range(1, 2))
	cp.Ops = []ClientOp{{Op: "dial"}, {Op: "connect"}, {GapMs: 100, Op: "register", Topic: "t/known"}, {GapMs: 100, Op: "subscribe", Topic: "t/#", QoS: 2},
		{GapMs: span*int64(nmsg) + 4000, Op: "disconnect"}}
	p.Clients = []ClientPlan{cp}
	for k := 0; k < nmsg; k++ {
		topic := []string{"t/known", "t/new"}[g.Intn(2)]
		p.Broker.Injects = append(p.Broker.Injects, BrokerInject{AtMs: 1500 + int64(k)*span, Topic: topic, Payload: serialPayload("m", k, int(g.Range(0, 12))), QoS: uint8(1 + g.Intn(2))})
	}
	beyond := g.Bool(0.2)
	classesG2C := []string{"REGISTER", "PUBLISH", "PUBREL"}
	classesC2G := []string{"REGACK", "PUBACK", "PUBREC", "PUBCOMP"}
	nrules := int(g.Range(1, 3))
	hasWerr := false
	for r := 0; r < nrules; r++ {
		j := int(g.Range(1, int64(rc)))
		if beyond && r == 0 {
			j = rc + 1
			p.Family = "C16-loss-beyond-budget"
		}
		act := "drop"
		if g.Bool(0.25) {
			act, j = "dup", int(g.Range(1, 2))
		}
		if act == "drop" && !beyond && !hasWerr && g.Bool(0.15) {
			hasWerr = true
			// the datagram is lost before it leaves: the client's write of its PUBCOMP fails (the one
			// acknowledgement whose failed write the client survives)
			// (once: a second failure, on the path that answers a repeated PUBREL, ends the client like every other failed write does)
			p.Cfg.SN.Rules = append(p.Cfg.SN.Rules, Rule{Dir: "c2g", Class: "PUBCOMP", Count: 1, Act: "werr"})
		} else if g.Bool(0.5) {
			p.Cfg.SN.Rules = append(p.Cfg.SN.Rules, Rule{Dir: "g2c", Class: classesG2C[g.Intn(3)], Count: j, Act: act})
		} else {
			p.Cfg.SN.Rules = append(p.Cfg.SN.Rules, Rule{Dir: "c2g", Class: classesC2G[g.Intn(4)], Count: j, Act: act})
		}
	}
	p.Cfg.HorizonMs = 1500 + span*int64(nmsg) + 10000
	return p
}

func init() {
	Register(&Check{ID: "C26", Level: "exploration",
		Rule:   "1-2 real client libraries against the real gateway and the broker model over lossless links: random bounded API programs (connect, register, subscribe string/wildcard/short/predefined, publish QoS 0-3, unsubscribe, ping, sleep -> second sleep -> connect, disconnect; optional will; keep-alive on/off) with broker-side publishes routed by subscription incl. bursts on not-yet-registered topics; every eighth plan: wildcard subscription, sleeps of 3-7 s with publishes on new names during them and a gateway retry budget shorter than the sleep; every call must return nil within its bound, have its effect at the broker, and every broker message matching a live subscription must reach the handler; non-trivial = at least one API call",
		Gen:    genC26, Oracle: oracleC26, Quick: 1600, Thorough: 120000})
	Register(&Check{ID: "C32", Level: "exploration",
		Rule:   "real clients and the real gateway share a random predefined-topic configuration with client-specific/'*' overlaps in ids (names unique per map, see N7); PublishPredefined/SubscribePredefined/short-topic Publish/Subscribe plus broker publishes on every predefined and short name; the broker must see the name the client's configuration gives to the id, handlers must get the broker's name; non-trivial = at least one predefined/short publish, subscribe or delivery judged",
		Gen:    genC32, Oracle: oracleC32, Quick: 1200, Thorough: 120000})
	Register(&Check{ID: "C16", Level: "fault_enumeration",
		Rule:   "real client subscribed to t/#, broker publishes QoS 1/2 on a registered and on a new topic (REGISTER step); 1-2 planned rules drop the first j <= RetryCount occurrences (or duplicate) of one class among REGISTER, PUBLISH, PUBREL (to the client) and REGACK, PUBACK, PUBREC, PUBCOMP (from it); one fifth of the runs exceed the budget (j = RetryCount+1); non-trivial = a broker QoS 1/2 PUBLISH was sent",
		Gen:    genC16, Oracle: oracleC16, Quick: 1200, Thorough: 100000})
}
