// check: the runner behind every MANIFEST command.
//
//	check <Cxx> quick|thorough     run one property's check (VERIF_SEED, VERIF_TIER honoured)
//	check --replay <file>          re-execute a replay file against the current /repo tree
//	check selftest                 determinism + instrumentation-preserves-tests self checks
//
// Exit 0: property held on everything explored (known findings are listed, not alarms).
// Exit 1: at least one "VIOLATION property=<id> replay=<path>" line.
// Exit 2: infrastructure trouble (build, instrumenter, watchdog) — never with a VIOLATION line.
package main

import (
	"bufio"
	"bytes"
	"crypto/sha256"
	"encoding/json"
	"fmt"
	"os"
	"os/exec"
	"path/filepath"
	"regexp"
	"runtime"
	"sort"
	"strconv"
	"strings"
	"sync"
	"time"

	"verifsim/world"
)

// verifDir: where the machinery lives (bin/check exports its own location; a background run from a
// snapshot of /verif works on that snapshot). repoDir: the tree under test.
var verifDir = envOr("VERIF_DIR", "/verif")

var repoDir = envOr("VERIF_REPO", "/repo")

func envOr(k, d string) string {
	if v := os.Getenv(k); v != "" {
		return v
	}
	return d
}

var goBin = "go1.26.8"

func env() []string {
	e := os.Environ()
	flags := "GOFLAGS=-mod=mod"
	if mf := os.Getenv("VERIF_MODFILE"); mf != "" {
		flags += " -modfile=" + mf
	}
	e = append(e, flags, "GOPROXY=off", "GOSUMDB=off", "GOTOOLCHAIN=local", "CGO_ENABLED=0")
	return e
}

func die(code int, f string, a ...any) {
	fmt.Fprintf(os.Stderr, "check: "+f+"\n", a...)
	os.Exit(code)
}

type builder struct {
	scratch string
	engine  string
	sites   int
	nfiles  int
	tools   map[string]string // tool name -> test binary (CLI checks)
}

func run(dir string, extraEnv []string, name string, args ...string) ([]byte, error) {
	cmd := exec.Command(name, args...)
	cmd.Dir = dir
	cmd.Env = append(env(), extraEnv...)
	return cmd.CombinedOutput()
}

// build instruments the current /repo tree and builds the engine binary.
func build(cli bool) *builder {
	scratch, err := os.MkdirTemp("", "verif-check-")
	if err != nil {
		die(2, "mktemp: %v", err)
	}
	b := &builder{scratch: scratch}
	sim := filepath.Join(verifDir, "sim")
	// go.sum of the harness = repo's go.sum (+ harness-only modules, kept in go.sum.extra)
	sum, _ := os.ReadFile(filepath.Join(repoDir, "go.sum"))
	extra, _ := os.ReadFile(filepath.Join(sim, "go.sum.extra"))
	if os.Getenv("VERIF_MODFILE") == "" { // (an alternative go.mod brings its own .sum, written by bin/check)
		os.WriteFile(filepath.Join(sim, "go.sum"), append(sum, extra...), 0644)
	}
	if out, err := run(sim, nil, goBin, "build", "-o", filepath.Join(scratch, "instr"), "./instr"); err != nil {
		die(2, "build instr: %v\n%s", err, out)
	}
	gen := filepath.Join(scratch, "gen")
	args := []string{"-repo", repoDir, "-out", gen}
	if cli {
		args = append(args, "-cli")
	}
	out, err := run(sim, []string{"VERIF_GOBIN=" + goBin}, filepath.Join(scratch, "instr"), args...)
	if err != nil {
		die(2, "instrumenter failed (does /repo parse?): %v\n%s", err, out)
	}
	if m := regexp.MustCompile(`(\d+) files, (\d+) yield sites`).FindSubmatch(out); m != nil {
		b.nfiles, _ = strconv.Atoi(string(m[1]))
		b.sites, _ = strconv.Atoi(string(m[2]))
	}
	b.engine = filepath.Join(scratch, "engine.test")
	if out, err := run(sim, nil, goBin, "test", "-c", "-vet=off", "-overlay", filepath.Join(gen, "overlay.json"), "-o", b.engine, "./engine"); err != nil {
		die(2, "build engine (does /repo compile?): %v\n%s", err, out)
	}
	b.tools = map[string]string{}
	if cli {
		// one test binary per command-line tool: the overlay adds a test file to its package main
		raw, _ := os.ReadFile(filepath.Join(gen, "overlay.json"))
		var ov struct{ Replace map[string]string }
		json.Unmarshal(raw, &ov)
		for _, tool := range cliTools {
			src := filepath.Join(gen, "zz_verif_"+tool+"_test.go")
			os.WriteFile(src, []byte(fmt.Sprintf(cliTestFile, tool)), 0644)
			ov.Replace[filepath.Join(repoDir, "cmd", tool, "zz_verif_cli_test.go")] = src
		}
		jb, _ := json.MarshalIndent(ov, "", " ")
		ovp := filepath.Join(gen, "overlay-cli.json")
		os.WriteFile(ovp, jb, 0644)
		var wg sync.WaitGroup
		var mu sync.Mutex
		var failed string
		for _, tool := range cliTools {
			wg.Add(1)
			go func(tool string) {
				defer wg.Done()
				bin := filepath.Join(scratch, tool+".test")
				if out, err := run(sim, nil, goBin, "test", "-c", "-vet=off", "-overlay", ovp, "-o", bin, "github.com/energomonitor/bisquitt/cmd/"+tool); err != nil {
					mu.Lock()
					failed = fmt.Sprintf("build %s test binary: %v\n%s", tool, err, out)
					mu.Unlock()
				}
				mu.Lock()
				b.tools[tool] = bin
				mu.Unlock()
			}(tool)
		}
		wg.Wait()
		if failed != "" {
			die(2, "%s", failed)
		}
	}
	return b
}

var cliTools = []string{"bisquitt", "bisquitt-pub", "bisquitt-sub"}

const cliTestFile = `package main

import (
	"testing"

	"verifsim/world"
)

func TestWorker(t *testing.T) {
	world.CLITool = %q
	world.CLIRun = func(args []string) error { return Application.Run(args) }
	world.WorkerMain(t)
}
`

func (b *builder) cleanup() { os.RemoveAll(b.scratch) }

// ---------------------------------------------------------------------------------------------

type crash struct {
	Idx    int
	Stderr string
	Sig    string
}

type workerResult struct {
	outs    []*world.RunOut
	crashes []crash
	skipped int
	infra   string
}

var reFrame = regexp.MustCompile(`(?m)^github\.com/energomonitor/bisquitt/([^\s(]+(?:\([^)]*\))?[^\s(]*)\(`)

// crashSignature derives a seed-independent signature from a panic trace.
func crashSignature(stderr string) (string, bool) {
	i := strings.Index(stderr, "panic: ")
	j := strings.Index(stderr, "fatal error: ")
	if i < 0 && j < 0 {
		return "", false
	}
	if i < 0 || (j >= 0 && j < i) {
		i = j
	}
	msg := stderr[i:]
	if k := strings.Index(msg, "\n"); k > 0 {
		msg = msg[:k]
	}
	class := "other"
	switch {
	case strings.Contains(msg, "index out of range"):
		class = "index-out-of-range"
	case strings.Contains(msg, "slice bounds out of range"):
		class = "slice-bounds"
	case strings.Contains(msg, "nil pointer dereference"):
		class = "nil-deref"
	case strings.Contains(msg, "close of closed channel"):
		class = "close-of-closed-channel"
	case strings.Contains(msg, "interface conversion"):
		class = "interface-conversion"
	case strings.Contains(msg, "concurrent map"):
		class = "concurrent-map"
	case strings.Contains(msg, "negative WaitGroup"):
		class = "waitgroup"
	case strings.Contains(msg, "all goroutines are asleep"):
		class = "deadlock"
	}
	fn := "unknown"
	rest := stderr[i:]
	// first repo frame after the panic line, skipping the harness and the runtime
	sc := bufio.NewScanner(strings.NewReader(rest))
	for sc.Scan() {
		l := sc.Text()
		if strings.HasPrefix(l, "github.com/energomonitor/bisquitt/") {
			fn = strings.TrimPrefix(l, "github.com/energomonitor/bisquitt/")
			if k := strings.LastIndex(fn, "("); k > 0 {
				fn = fn[:k]
			}
			fn = regexp.MustCompile(`\.func\d+(\.\d+)*$`).ReplaceAllString(fn, "")
			break
		}
	}
	if strings.Contains(msg, "simrt:") || strings.Contains(msg, "synctest") {
		return "infra:" + msg, false
	}
	return fmt.Sprintf("panic/%s/%s", fn, class), true
}

// runWorker runs idxs in one worker process, restarting after crashes.
func runWorker(b *builder, prop, tier string, base uint64, idxs []int, wid int) *workerResult {
	return runWorkerBin(b, b.engine, prop, tier, base, idxs, wid, "1")
}

func runWorkerGMP(b *builder, prop, tier string, base uint64, idxs []int, wid int, gmp string) *workerResult {
	return runWorkerBin(b, b.engine, prop, tier, base, idxs, wid, gmp)
}

func runWorkerBin(b *builder, bin, prop, tier string, base uint64, idxs []int, wid int, gmp string) *workerResult {
	res := &workerResult{}
	remaining := idxs
	for len(remaining) > 0 {
		job := world.Job{Mode: "run", Property: prop, Tier: tier, BaseSeed: base, Idx: remaining}
		jb, _ := json.Marshal(job)
		jp := filepath.Join(b.scratch, fmt.Sprintf("job-%d-%d.json", wid, len(remaining)))
		os.WriteFile(jp, jb, 0644)
		cmd := exec.Command(bin, "-test.run", "^TestWorker$", "-test.timeout", "6h")
		cmd.Env = append(env(), "VERIF_JOB="+jp, "GOMAXPROCS="+gmp, "GODEBUG=asyncpreemptoff=1")
		cmd.Dir = b.scratch
		var stderr bytes.Buffer
		cmd.Stderr = &stderr
		stdout, _ := cmd.StdoutPipe()
		if err := cmd.Start(); err != nil {
			res.infra = "start worker: " + err.Error()
			return res
		}
		// watchdog: a run that produces no line within 600 s is killed (the heaviest plans, 65534 registrations, take ~1 min alone)
		lineCh := make(chan string, 256)
		go func() {
			sc := bufio.NewScanner(stdout)
			sc.Buffer(make([]byte, 1<<20), 64<<20)
			for sc.Scan() {
				lineCh <- sc.Text()
			}
			close(lineCh)
		}()
		cur := -1
		done := map[int]bool{}
		finished := false
		hung := false
		yielded := false
	loop:
		for {
			select {
			case l, ok := <-lineCh:
				if !ok {
					break loop
				}
				switch {
				case strings.HasPrefix(l, "RUN "):
					cur, _ = strconv.Atoi(l[4:])
				case strings.HasPrefix(l, "SKIP "):
					n, _ := strconv.Atoi(l[5:])
					done[n] = true
					res.skipped++
				case strings.HasPrefix(l, "END "):
					var o world.RunOut
					if err := json.Unmarshal([]byte(l[4:]), &o); err == nil {
						res.outs = append(res.outs, &o)
						done[o.Idx] = true
					}
					cur = -1
				case l == "WORKER-DONE":
					finished = true
				case l == "WORKER-YIELD":
					yielded = true
				}
			case <-time.After(600 * time.Second):
				hung = true
				cmd.Process.Kill()
				break loop
			}
		}
		cmd.Wait()
		if finished {
			return res
		}
		if hung {
			res.infra = fmt.Sprintf("watchdog: worker %d produced nothing for 600 s (idx %d)", wid, cur)
			return res
		}
		if yielded {
			// one process per run (CLI tools keep state in package-level variables): continue with the rest
			var next []int
			for _, i := range remaining {
				if !done[i] {
					next = append(next, i)
				}
			}
			remaining = next
			continue
		}
		// crashed while running `cur`
		if cur < 0 {
			res.infra = "worker died outside a run: " + tail(stderr.String(), 2000)
			return res
		}
		sig, real := crashSignature(stderr.String())
		if !real {
			res.infra = "worker failed: " + sig + "\n" + tail(stderr.String(), 3000)
			return res
		}
		res.crashes = append(res.crashes, crash{Idx: cur, Stderr: tail(stderr.String(), 6000), Sig: sig})
		done[cur] = true
		var next []int
		for _, i := range remaining {
			if !done[i] {
				next = append(next, i)
			}
		}
		remaining = next
	}
	return res
}

func tail(s string, n int) string {
	if len(s) > n {
		return s[:n]
	}
	return s
}

// runPlan executes one explicit plan in a fresh process (replay / shrink of crashing runs).
func runPlan(b *builder, mode string, prop string, plan *world.Plan, sig, out string, maxExec int) (*world.RunOut, string, string) {
	job := world.Job{Mode: mode, Property: prop, Plan: plan, Sig: sig, Out: out, MaxExec: maxExec}
	jb, _ := json.Marshal(job)
	h := sha256.Sum256(jb)
	jp := filepath.Join(b.scratch, fmt.Sprintf("plan-%x.json", h[:6]))
	os.WriteFile(jp, jb, 0644)
	bin := b.engine
	if plan != nil && plan.CLI != nil && b.tools[plan.CLI.Tool] != "" {
		bin = b.tools[plan.CLI.Tool]
	}
	cmd := exec.Command(bin, "-test.run", "^TestWorker$", "-test.timeout", "20m")
	cmd.Env = append(env(), "VERIF_JOB="+jp, "GOMAXPROCS=1", "GODEBUG=asyncpreemptoff=1")
	cmd.Dir = b.scratch
	var stderr, stdout bytes.Buffer
	cmd.Stderr = &stderr
	cmd.Stdout = &stdout
	cmd.Run()
	var o *world.RunOut
	for _, l := range strings.Split(stdout.String(), "\n") {
		if strings.HasPrefix(l, "END ") {
			var x world.RunOut
			if json.Unmarshal([]byte(l[4:]), &x) == nil {
				o = &x
			}
		}
	}
	csig := ""
	if !strings.Contains(stdout.String(), "WORKER-DONE") {
		csig, _ = crashSignature(stderr.String())
	}
	return o, csig, stderr.String()
}

// ---------------------------------------------------------------------------------------------
// known findings

type finding struct {
	Property  string `json:"property"`
	Signature string `json:"signature"`
	Status    string `json:"status"` // known | fixed
	Commit    string `json:"commit,omitempty"`
	What      string `json:"what"`
	Replay    string `json:"replay,omitempty"`
}

func loadFindings() []finding {
	if os.Getenv("VERIF_NO_KNOWN") == "1" {
		return nil // debugging aid: treat every violation as new (never used by registered commands)
	}
	raw, err := os.ReadFile(filepath.Join(verifDir, "known_findings.json"))
	if err != nil {
		return nil
	}
	var f struct {
		Findings []finding `json:"findings"`
	}
	if err := json.Unmarshal(raw, &f); err != nil {
		die(2, "known_findings.json: %v", err)
	}
	return f.Findings
}

func knownFor(fs []finding, prop, sig string) *finding {
	for i := range fs {
		if fs[i].Status == "known" && fs[i].Property == prop && fs[i].Signature == sig {
			return &fs[i]
		}
	}
	return nil
}

// ---------------------------------------------------------------------------------------------

type sigInfo struct {
	sig     string
	detail  string
	idx     []int
	crash   *crash
}

func sigHash(s string) string {
	h := sha256.Sum256([]byte(s))
	return fmt.Sprintf("%x", h[:5])
}

func checkMain(prop, tier string) int {
	c := world.Checks[prop]
	if c == nil {
		die(2, "unknown property %s", prop)
	}
	t0 := time.Now()
	base := uint64(20260921)
	if v := os.Getenv("VERIF_SEED"); v != "" {
		if n, err := strconv.ParseUint(v, 10, 64); err == nil {
			base = n
		} else if n, err := strconv.ParseInt(v, 10, 64); err == nil {
			base = uint64(n)
		}
	}
	nruns := c.Quick
	if tier == "thorough" {
		nruns = c.Thorough
	}
	if v := os.Getenv("VERIF_RUNS"); v != "" {
		nruns, _ = strconv.Atoi(v)
	}
	b := build(c.CLI)
	defer b.cleanup()
	buildS := time.Since(t0).Seconds()

	// leave two cores free: an OS thread that is descheduled for >10 ms looks like a long-running
	// goroutine to the Go runtime, which then forces a preemption (a legal but unrepeatable schedule)
	P := runtime.NumCPU() - 2
	if P > 14 {
		P = 14
	}
	if P < 1 {
		P = 1
	}
	if v := os.Getenv("VERIF_WORKERS"); v != "" {
		P, _ = strconv.Atoi(v)
	}
	if P > nruns {
		P = nruns
	}
	if P < 1 {
		P = 1
	}
	parts := make([][]int, P)
	for i := 0; i < nruns; i++ {
		parts[i%P] = append(parts[i%P], i)
	}
	// determinism sample: every 23rd run is executed a second time in another worker
	var dup []int
	for i := 0; i < nruns; i += 23 {
		dup = append(dup, i)
	}
	results := make([]*workerResult, P+1)
	var wg sync.WaitGroup
	bins := make([]string, P)
	if c.CLI {
		// a worker runs one tool's binary: partition the indices by the tool their plan names
		byTool := map[string][]int{}
		for i := 0; i < nruns; i++ {
			tool := ""
			if pl := world.PlanFor(c, tier, base, i); pl != nil && pl.CLI != nil {
				tool = pl.CLI.Tool
			}
			byTool[tool] = append(byTool[tool], i)
		}
		parts = make([][]int, P)
		w := 0
		for _, tool := range append([]string{""}, cliTools...) {
			l := byTool[tool]
			if len(l) == 0 {
				continue
			}
			share := (P*len(l) + nruns - 1) / nruns
			if share < 1 {
				share = 1
			}
			for k := 0; k < share && w < P; k++ {
				bins[w] = b.tools[tool]
				for j := k; j < len(l); j += share {
					parts[w] = append(parts[w], l[j])
				}
				w++
			}
			if w >= P {
				// out of workers: put the rest on the last worker of this tool... (cannot happen with P >= 4)
			}
		}
	}
	for w := 0; w < P; w++ {
		wg.Add(1)
		go func(w int) {
			defer wg.Done()
			bin := b.engine
			if bins[w] != "" {
				bin = bins[w]
			}
			results[w] = runWorkerBin(b, bin, prop, tier, base, parts[w], w, "1")
		}(w)
	}
	if c.CLI {
		dup = nil // the determinism sample would need the right tool binary per index; CLI runs are single-threaded scripts
	}
	wg.Add(1)
	go func() { defer wg.Done(); results[P] = runWorker(b, prop, tier, base, dup, P) }()
	wg.Wait()

	var outs []*world.RunOut
	var crashes []crash
	skipped := 0
	for w := 0; w < P; w++ {
		r := results[w]
		if r.infra != "" {
			die(2, "%s", r.infra)
		}
		outs = append(outs, r.outs...)
		crashes = append(crashes, r.crashes...)
		skipped += r.skipped
	}
	sort.Slice(outs, func(i, j int) bool { return outs[i].Idx < outs[j].Idx })
	for _, o := range outs {
		if o.Verdict.Harness != "" {
			die(2, "harness dependency missing (run idx %d): %s", o.Idx, o.Verdict.Harness)
		}
	}
	byIdx := map[int]*world.RunOut{}
	for _, o := range outs {
		byIdx[o.Idx] = o
	}
	detChecked, detDiverged := 0, 0
	if results[P].infra == "" {
		for _, o := range results[P].outs {
			if p, ok := byIdx[o.Idx]; ok {
				detChecked++
				if p.Canon != o.Canon {
					detDiverged++
					fmt.Fprintf(os.Stderr, "DET-DIVERGENCE property=%s tier=%s seed=%d idx=%d canon %s vs %s\n", prop, tier, base, o.Idx, p.Canon, o.Canon)
				}
			}
		}
	}

	// collect signatures
	sigs := map[string]*sigInfo{}
	var order []string
	addSig := func(sig, detail string, idx int, cr *crash) {
		si := sigs[sig]
		if si == nil {
			si = &sigInfo{sig: sig, detail: detail, crash: cr}
			sigs[sig] = si
			order = append(order, sig)
		}
		si.idx = append(si.idx, idx)
	}
	for _, o := range outs {
		for _, v := range o.Verdict.Violations {
			addSig(v.Sig, v.Detail, o.Idx, nil)
		}
	}
	// (a command line tool that dies on a configuration does not "use the mapping" / "refuse to start")
	crashOwn := prop == "C25" || prop == "C20" || prop == "C18" || prop == "C30" || prop == "C31"
	incidental := map[string]int{}
	for i := range crashes {
		cr := &crashes[i]
		if crashOwn {
			addSig(prop+"/"+cr.Sig, "worker process died: "+firstLine(cr.Stderr), cr.Idx, cr)
		} else {
			incidental["C25/"+cr.Sig]++
		}
	}
	for _, o := range outs {
		for _, v := range o.Incidental {
			incidental[v.Sig]++
		}
	}
	sort.Strings(order)

	findings := loadFindings()
	os.MkdirAll(filepath.Join(verifDir, "replays"), 0755)
	nviol := 0
	var knownSeen []string
	var lines []string
	for _, sig := range order {
		si := sigs[sig]
		if kf := knownFor(findings, prop, sig); kf != nil {
			knownSeen = append(knownSeen, sig)
			lines = append(lines, fmt.Sprintf("KNOWN-FINDING: property=%s %s [%s] (%d runs)", prop, kf.What, sig, len(si.idx)))
			continue
		}
		// new violation: minimise, write replay, confirm
		nviol++
		rp := filepath.Join(verifDir, "replays", fmt.Sprintf("%s-%s.json", prop, sigHash(sig)))
		plan := world.PlanFor(c, tier, base, si.idx[0])
		stable := "n/a"
		if si.crash == nil {
			o, _, _ := runPlan(b, "shrink", prop, plan, sig, rp, 150)
			if o == nil || !hasSig(o, sig) {
				// shrinking lost it: store the original
				runPlan(b, "replay", prop, plan, sig, rp, 0)
			}
			// confirm from the file, twice, in fresh processes
			ok := 0
			for k := 0; k < 2; k++ {
				if rf := readReplay(rp); rf != nil {
					if o2, _, _ := runPlan(b, "replay", prop, rf.Plan, sig, "", 0); o2 != nil && hasSig(o2, sig) {
						ok++
					}
				}
			}
			stable = fmt.Sprintf("%d/2", ok)
		} else {
			best := shrinkCrash(b, prop, plan, si.crash.Sig)
			_, cs, st := runPlan(b, "replay", prop, best, sig, "", 0)
			rf := world.ReplayFile{Property: prop, Sig: sig, Detail: firstLine(st), Plan: best, Note: "worker process crash; stderr tail follows", LogTail: strings.Split(tail(st, 4000), "\n")}
			jb, _ := json.MarshalIndent(rf, "", " ")
			os.WriteFile(rp, jb, 0644)
			if cs == si.crash.Sig {
				stable = "1/1"
			} else {
				stable = "0/1"
			}
		}
		lines = append(lines, fmt.Sprintf("VIOLATION property=%s replay=%s signature=%q runs=%d first_idx=%d replay_stable=%s detail=%q", prop, rp, sig, len(si.idx), si.idx[0], stable, si.detail))
	}
	for _, l := range lines {
		fmt.Println(l)
	}

	writeEvidence(c, prop, tier, base, b, outs, crashes, skipped, nviol, knownSeen, incidental, detChecked, detDiverged, time.Since(t0).Seconds(), buildS, P)
	fmt.Printf("check %s %s: runs=%d crashes=%d violations=%d known=%d determinism=%d/%d wall=%.1fs\n", prop, tier, len(outs), len(crashes), nviol, len(knownSeen), detChecked-detDiverged, detChecked, time.Since(t0).Seconds())
	if nviol > 0 {
		return 1
	}
	return 0
}

func firstLine(s string) string {
	for _, l := range strings.Split(s, "\n") {
		if strings.HasPrefix(l, "panic:") || strings.HasPrefix(l, "fatal error:") {
			return l
		}
	}
	if i := strings.Index(s, "\n"); i > 0 {
		return s[:i]
	}
	return s
}

func hasSig(o *world.RunOut, sig string) bool {
	for _, v := range o.Verdict.Violations {
		if v.Sig == sig {
			return true
		}
	}
	return false
}

func readReplay(path string) *world.ReplayFile {
	raw, err := os.ReadFile(path)
	if err != nil {
		return nil
	}
	var rf world.ReplayFile
	if json.Unmarshal(raw, &rf) != nil {
		return nil
	}
	return &rf
}

// shrinkCrash: one subprocess per candidate, small budget.
func shrinkCrash(b *builder, prop string, plan *world.Plan, csig string) *world.Plan {
	best := plan
	execs := 0
	deadline := time.Now().Add(90 * time.Second)
	changed := true
	for changed && execs < 80 && time.Now().Before(deadline) {
		changed = false
		for _, cand := range world.ShrinkCandidates(best) {
			if execs >= 80 || time.Now().After(deadline) {
				break
			}
			execs++
			_, cs, _ := runPlan(b, "replay", prop, cand, "", "", 0)
			if cs == csig {
				best = cand
				changed = true
				break
			}
		}
	}
	return best
}

// ---------------------------------------------------------------------------------------------

func writeEvidence(c *world.Check, prop, tier string, base uint64, b *builder, outs []*world.RunOut, crashes []crash, skipped, nviol int,
	known []string, incidental map[string]int, detChecked, detDiverged int, wall, buildS float64, P int) {
	distinct := map[string]bool{}
	faults := map[string]int{}
	probes := map[string]int{}
	families := map[string]int{}
	var steps, events, simNs int64
	sitesMax, switchesSum := 0, 0
	triggers := 0
	l2runs := 0
	for _, o := range outs {
		if o.Verdict.Trigger {
			triggers++
			distinct[o.Canon] = true
		}
		for k, v := range o.Faults {
			faults[k] += v
		}
		for k, v := range o.Probes {
			probes[k] += v
		}
		families[o.Family]++
		steps += o.Steps
		events += o.Events
		simNs += o.SimNs
		if o.SitesHit > sitesMax {
			sitesMax = o.SitesHit
		}
		switchesSum += o.Switches
		if o.Steps > 0 {
			l2runs++
		}
	}
	var samples []any
	for i := 0; i < len(outs) && len(samples) < 3; i += 1 + len(outs)/3 {
		p := world.PlanFor(c, tier, base, outs[i].Idx)
		samples = append(samples, map[string]any{"idx": outs[i].Idx, "family": outs[i].Family, "plan": summarize(p), "verdict": outs[i].Verdict, "canon": outs[i].Canon})
	}
	if len(samples) == 0 {
		samples = append(samples, "no run completed")
	}
	nd := len(distinct)
	ev := map[string]any{
		"property_id": prop, "tier": tier, "seed": int64(base & 0x7fffffffffffffff), "level": c.Level,
		"coverage": map[string]any{
			"evaluations": len(outs) + len(crashes), "distinct_nontrivial": nd, "rule": c.Rule, "samples": samples,
			"trigger_runs": triggers, "families": families, "skipped_indices": skipped,
			"runs_per_hour": int(float64(len(outs)) / (wall - buildS + 0.001) * 3600), "simulated_seconds_total": float64(simNs) / 1e9,
			"scheduler_decisions": steps, "sim_events": events, "level2_runs": l2runs,
			"yield_sites_total": b.sites, "yield_sites_reached_max_per_run": sitesMax, "context_switch_pairs_sum_over_runs": switchesSum,
			"faults_fired": faults, "rare_condition_probes": probes,
			"determinism_selfcheck": map[string]any{"runs_repeated_in_second_process": detChecked, "canonical_log_divergences": detDiverged},
			"worker_crashes": len(crashes), "known_findings_seen": known, "incidental_other_properties": incidental,
			"components": map[string]any{
				"real":  []string{"gateway (ListenAndServe, handler1, transactions)", "client library", "transactions", "util.ClientState/ConnWithContext/IDSequence", "packets, packets1, topics", "paho packet codec", "errgroup, context"},
				"stub":  []string{"UDP/DTLS transport and pion/udp demultiplexing (simulated datagram links)", "TCP to the broker (simulated stream)", "MQTT broker (conforming model)", "raw MQTT-SN peers / scripted gateway (refsn)"},
				"instrumented_files": b.nfiles,
			},
			"workers": P, "build_s": buildS,
		},
		"assumptions": append([]string{"one worker process = one OS thread (GOMAXPROCS=1); schedules are decided by the seed", "sampling, not enumeration, unless exhaustive=true"}, c.Assumptions...),
		"wall_s": wall, "violations": nviol,
	}
	// evidence describes /repo; a run against another tree (VERIF_REPO: seeded changes, experiments)
	// must not overwrite it
	evDir := filepath.Join(verifDir, "evidence")
	if repoDir != "/repo" {
		evDir = filepath.Join(verifDir, "evidence-alt")
	}
	os.MkdirAll(evDir, 0755)
	jb, _ := json.MarshalIndent(ev, "", " ")
	os.WriteFile(filepath.Join(evDir, prop+".json"), jb, 0644)
}

func summarize(p *world.Plan) any {
	if p == nil {
		return nil
	}
	m := map[string]any{"family": p.Family, "seed": p.Seed, "sched": p.Cfg.Sched, "horizon_ms": p.Cfg.HorizonMs}
	var peers []any
	for _, pp := range p.Peers {
		var ops []string
		for i, op := range pp.Ops {
			if i >= 12 {
				ops = append(ops, fmt.Sprintf("… %d more", len(pp.Ops)-i))
				break
			}
			ops = append(ops, fmt.Sprintf("@%dms %s", op.AtMs, op.Pkt.String()))
		}
		peers = append(peers, map[string]any{"name": pp.Name, "ops": ops})
	}
	if peers != nil {
		m["peers"] = peers
	}
	var cls []any
	for _, cp := range p.Clients {
		var ops []string
		for i, op := range cp.Ops {
			if i >= 12 {
				break
			}
			ops = append(ops, fmt.Sprintf("+%dms %s %s%s", op.GapMs, op.Op, op.Topic, map[bool]string{true: fmt.Sprintf(" q%d", op.QoS), false: ""}[strings.HasPrefix(op.Op, "pub") || strings.HasPrefix(op.Op, "sub")]))
		}
		cls = append(cls, map[string]any{"name": cp.Name, "ops": ops})
	}
	if cls != nil {
		m["clients"] = cls
	}
	if n := len(p.Broker.Injects); n > 0 {
		m["broker_injects"] = n
	}
	if n := len(p.Broker.Faults); n > 0 {
		m["broker_faults"] = p.Broker.Faults
	}
	if len(p.Cfg.SN.Rules) > 0 {
		m["link_rules"] = p.Cfg.SN.Rules
	}
	if p.TX != nil {
		m["tx"] = p.TX
	}
	if p.Note != "" {
		m["note"] = p.Note
	}
	return m
}

// ---------------------------------------------------------------------------------------------

func replayMain(path string) int {
	rf := readReplay(path)
	if rf == nil {
		die(2, "cannot read replay file %s", path)
	}
	b := build(false)
	defer b.cleanup()
	// VERIF_REPLAY_OUT: debugging aid, writes the re-executed run (plan, verdict, history) to that file
	o, cs, st := runPlan(b, "replay", rf.Property, rf.Plan, rf.Sig, os.Getenv("VERIF_REPLAY_OUT"), 0)
	if o != nil && len(o.Hist) > 0 && os.Getenv("VERIF_REPLAY_OUT") != "" {
		// VERIF_HIST=1: canonical history and the driver's decision trace next to the re-executed run
		os.WriteFile(os.Getenv("VERIF_REPLAY_OUT")+".trace", []byte(strings.Join(o.Hist, "\n")+"\n"), 0644)
	}
	if o != nil {
		fmt.Printf("replay %s: canon=%s (recorded %s) violations=%d\n", path, o.Canon, rf.Canon, len(o.Verdict.Violations))
		for _, v := range o.Verdict.Violations {
			fmt.Printf("  %s — %s\n", v.Sig, v.Detail)
		}
		if hasSig(o, rf.Sig) {
			fmt.Printf("VIOLATION property=%s replay=%s\n", rf.Property, path)
			return 1
		}
		fmt.Println("signature not reproduced on this tree")
		return 0
	}
	if cs != "" && strings.HasSuffix(rf.Sig, cs) {
		fmt.Println(firstLine(st))
		fmt.Printf("VIOLATION property=%s replay=%s\n", rf.Property, path)
		return 1
	}
	die(2, "replay failed to run: %s", tail(st, 2000))
	return 2
}

func main() {
	if len(os.Args) < 2 {
		die(2, "usage: check <Cxx> quick|thorough | --replay <file> | selftest")
	}
	switch os.Args[1] {
	case "--replay":
		if len(os.Args) < 3 {
			die(2, "--replay needs a file")
		}
		os.Exit(replayMain(os.Args[2]))
	case "selftest":
		os.Exit(selftest())
	case "detdiff":
		// debugging aid: check detdiff <Cxx> <tier> <idx> [n]  — runs one index n times in fresh
		// processes and reports the first history line on which two executions differ
		os.Exit(detdiff(os.Args[2:]))
	case "build":
		// setup: warm the Go build cache (runner, instrumenter, engine and the three CLI test binaries)
		b := build(true)
		b.cleanup()
		fmt.Println("build ok")
		os.Exit(0)
	default:
		tier := os.Getenv("VERIF_TIER")
		if len(os.Args) > 2 {
			tier = os.Args[2]
		}
		if tier == "" {
			tier = "quick"
		}
		os.Exit(checkMain(os.Args[1], tier))
	}
}

func detdiff(args []string) int {
	if len(args) < 3 {
		die(2, "usage: check detdiff <Cxx> <tier> <idx> [n]")
	}
	prop, tier := args[0], args[1]
	idx, _ := strconv.Atoi(args[2])
	n := 20
	if len(args) > 3 {
		n, _ = strconv.Atoi(args[3])
	}
	base := uint64(20260921)
	if v := os.Getenv("VERIF_SEED"); v != "" {
		if x, err := strconv.ParseUint(v, 10, 64); err == nil {
			base = x
		}
	}
	c := world.Checks[prop]
	if c == nil {
		die(2, "unknown property %s", prop)
	}
	b := build(false)
	defer b.cleanup()
	plan := world.PlanFor(c, tier, base, idx)
	if plan == nil {
		die(2, "no plan for index %d", idx)
	}
	var first *world.ReplayFile
	canons := map[string]int{}
	for k := 0; k < n; k++ {
		out := filepath.Join(b.scratch, fmt.Sprintf("dd-%d.json", k))
		o, _, st := runPlan(b, "replay", prop, plan, "", out, 0)
		if o == nil {
			fmt.Println("run failed:", tail(st, 500))
			continue
		}
		canons[o.Canon]++
		rf := readReplay(out)
		if rf == nil {
			continue
		}
		if len(o.Hist) > 0 {
			// VERIF_HIST=1: canonical history followed by the driver's decision trace
			rf.History = o.Hist
		}
		if first == nil {
			first = rf
			continue
		}
		if rf.Canon != first.Canon {
			start := 0
			for i, l := range first.History {
				if l == "--- decision trace ---" {
					start = i // compare the driver's decisions first: the root cause precedes its visible effect
				}
			}
			for i := start; i < len(rf.History) && i < len(first.History); i++ {
				if rf.History[i] != first.History[i] {
					lo := i - 12
					if lo < 0 {
						lo = 0
					}
					if g := os.Getenv("VERIF_DD_GREP"); g != "" {
						for _, h := range [][]string{first.History, rf.History} {
							fmt.Println("=== lines with", g)
							for _, l := range h {
								for _, gg := range strings.Split(g, "|") {
									if (strings.HasPrefix(gg, "^") && strings.HasPrefix(l, gg[1:])) || (!strings.HasPrefix(gg, "^") && strings.Contains(l, gg)) {
										fmt.Println("   ", l)
										break
									}
								}
							}
						}
					}
					fmt.Printf("--- run %d differs from run 0 at history line %d\n", k, i)
					for j := lo; j < i; j++ {
						fmt.Println("   ", first.History[j])
					}
					fmt.Println("  A:", first.History[i])
					fmt.Println("  B:", rf.History[i])
					break
				}
			}
		}
	}
	fmt.Println("canons:", canons)
	if out := os.Getenv("VERIF_REPLAY_OUT"); out != "" && first != nil {
		jb, _ := json.MarshalIndent(first, "", " ")
		os.WriteFile(out, jb, 0644)
	}
	return 0
}
