package main

import (
	"fmt"
	"os"
	"path/filepath"
	"sort"
	"strings"

	"verifsim/world"
)

// selftest: (1) determinism — the same (property, seed, idx) executed in fresh processes at
// GOMAXPROCS 1 (twice), 4 and 16 must give the same canonical log; only the GOMAXPROCS=1 pairs are
// an acceptance criterion (checks run at 1 P), the others are reported. (2) the repo's own test
// suites pass when compiled through the full overlay with the simulator off.
func selftest() int {
	b := build(false)
	defer b.cleanup()
	props := []string{}
	for id := range world.Checks {
		props = append(props, id)
	}
	sort.Strings(props)
	n := 12
	bad1 := 0
	total := 0
	for _, p := range props {
		idxs := make([]int, n)
		for i := range idxs {
			idxs[i] = i * 7
		}
		var canon [4]map[int]string
		for k, gmp := range []string{"1", "1", "4", "16"} {
			os.Setenv("VERIF_GOMAXPROCS", gmp)
			r := runWorkerGMP(b, p, "quick", 424242, idxs, 100+k, gmp)
			if r.infra != "" {
				fmt.Fprintf(os.Stderr, "selftest: %s\n", r.infra)
				return 2
			}
			canon[k] = map[int]string{}
			for _, o := range r.outs {
				canon[k][o.Idx] = o.Canon
			}
		}
		d1, d4, d16 := 0, 0, 0
		for i, c := range canon[0] {
			total++
			if canon[1][i] != c {
				d1++
			}
			if canon[2][i] != c {
				d4++
			}
			if canon[3][i] != c {
				d16++
			}
		}
		bad1 += d1
		fmt.Printf("selftest determinism %s: runs=%d divergent@1P=%d @4P=%d @16P=%d\n", p, len(canon[0]), d1, d4, d16)
	}
	// (2) instrumentation preserves behaviour
	gen := filepath.Join(b.scratch, "gen", "overlay.json")
	pk := []string{"github.com/energomonitor/bisquitt/gateway", "github.com/energomonitor/bisquitt/client", "github.com/energomonitor/bisquitt/transactions", "github.com/energomonitor/bisquitt/util"}
	out, err := run(filepath.Join(verifDir, "sim"), nil, goBin, append([]string{"test", "-count=1", "-vet=off", "-overlay", gen}, pk...)...)
	okTests := err == nil
	for _, l := range strings.Split(string(out), "\n") {
		if l != "" {
			fmt.Println("selftest repo-tests-through-overlay:", l)
		}
	}
	if bad1 > 0 || !okTests {
		fmt.Fprintf(os.Stderr, "selftest FAILED: divergent@1P=%d of %d, repo tests ok=%v\n", bad1, total, okTests)
		return 2
	}
	fmt.Printf("selftest OK: %d runs x4 executions, 0 divergent canonical logs at GOMAXPROCS=1; repo suites pass through the overlay\n", total)
	return 0
}
