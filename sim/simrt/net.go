package simrt

import (
	"context"
	"errors"
	"fmt"
	"io"
	"net"
	"os"
	"sync"
	"time"
)

// Addr is a simulated network address.
type Addr struct{ Net, S string }

func (a Addr) Network() string { return a.Net }
func (a Addr) String() string  { return a.S }

// Conn is the endpoint real code holds (net.Conn). Datagram (Packet=true) or byte stream.
// What happens to written bytes is decided by Out, installed by the harness.
type Conn struct {
	w      *World
	Name   string // history channel prefix
	Packet bool

	mu       sync.Mutex
	inbox    [][]byte
	eof      bool  // stream: peer sent FIN after inbox drained
	rerr     error // read/write error injected (RST)
	rdl      time.Time
	notify   chan struct{}
	closed   bool
	closedCh chan struct{}
	nOut     int
	nIn      int
	reader   uint64 // goroutine that read from this connection first
	wlimit   int    // stream: bytes the peer's window still accepts (-1: no limit)
	wlimited bool
	wdl      time.Time
	wnotify  chan struct{}

	Local, Remote Addr
	// Out is called in the writer's goroutine with a private copy of the bytes and the
	// per-connection write index. It must not block.
	Out func(i int, b []byte)
	// OnClose is called once when real code closes the connection.
	OnClose func()
	// WErr, if set, is asked before every write (attempt index, bytes): a non-nil error is what the
	// write returns, and nothing is sent (a failing system call: ECONNREFUSED after an ICMP error, ...)
	WErr func(i int, b []byte) error
	nWAttempt int
}

func (w *World) NewConn(name string, packet bool, local, remote Addr) *Conn {
	return &Conn{w: w, Name: name, Packet: packet, notify: make(chan struct{}, 1), wnotify: make(chan struct{}, 1), closedCh: make(chan struct{}), Local: local, Remote: remote}
}

// Deliver makes b readable (driver only).
func (c *Conn) Deliver(b []byte) {
	c.mu.Lock()
	if c.closed {
		c.mu.Unlock()
		c.w.Log(c.Name+"<", "lost-closed", b, "", 0)
		return
	}
	c.inbox = append(c.inbox, b)
	c.mu.Unlock()
	c.w.Log(c.Name+"<", "dlv", b, "", 0)
	c.poke()
}

// DeliverEOF: stream FIN (driver only).
func (c *Conn) DeliverEOF() {
	c.mu.Lock()
	c.eof = true
	c.mu.Unlock()
	c.w.Log(c.Name+"<", "fin", nil, "", 0)
	c.poke()
}

// DeliverErr: connection reset: pending data is discarded, reads and writes fail (driver only).
func (c *Conn) DeliverErr(err error) {
	c.mu.Lock()
	c.rerr = err
	c.inbox = nil
	c.mu.Unlock()
	c.w.Log(c.Name+"<", "rst", nil, err.Error(), 0)
	c.poke()
}

func (c *Conn) poke() {
	select {
	case c.notify <- struct{}{}:
	default:
	}
}

// IsClosed reports whether real code closed this end.
func (c *Conn) IsClosed() bool { c.mu.Lock(); defer c.mu.Unlock(); return c.closed }

type timeoutErr struct{}

func (timeoutErr) Error() string   { return "i/o timeout" }
func (timeoutErr) Timeout() bool   { return true }
func (timeoutErr) Temporary() bool { return true }
func (timeoutErr) Is(t error) bool { return t == os.ErrDeadlineExceeded }

var errTimeout net.Error = timeoutErr{}

// ReaderGoid: the goroutine which called Read first (0: nobody yet).
func (c *Conn) ReaderGoid() uint64 { c.mu.Lock(); defer c.mu.Unlock(); return c.reader }

func (c *Conn) Read(p []byte) (int, error) {
	c.mu.Lock()
	first := c.reader == 0
	c.mu.Unlock()
	if first {
		g := Goid()
		c.mu.Lock()
		if c.reader == 0 {
			c.reader = g
		}
		c.mu.Unlock()
	}
	for {
		c.mu.Lock()
		if c.closed {
			c.mu.Unlock()
			return 0, net.ErrClosed
		}
		if c.rerr != nil {
			e := c.rerr
			c.mu.Unlock()
			return 0, e
		}
		if len(c.inbox) > 0 {
			b := c.inbox[0]
			n := copy(p, b)
			if c.Packet || n == len(b) {
				c.inbox = c.inbox[1:]
			} else {
				c.inbox[0] = b[n:]
			}
			c.nIn++
			c.mu.Unlock()
			c.w.Log(c.Name+"<", "rx", append([]byte(nil), p[:n]...), "", 0)
			return n, nil
		}
		if c.eof {
			c.mu.Unlock()
			return 0, io.EOF
		}
		dl := c.rdl
		c.mu.Unlock()
		var tc <-chan time.Time
		var tm *time.Timer
		if !dl.IsZero() {
			d := time.Until(dl)
			if d <= 0 {
				return 0, errTimeout
			}
			tm = time.NewTimer(d)
			tc = tm.C
		}
		select {
		case <-c.notify:
		case <-tc:
			Resume("simrt:read-wake:" + c.Name)
			return 0, errTimeout
		case <-c.closedCh:
		}
		if tm != nil {
			tm.Stop()
		}
		Resume("simrt:read-wake:" + c.Name)
	}
}

// SetWriteLimit (driver only): a stream peer that has stopped reading accepts n more bytes (its
// receive window and the socket buffers), then writes block until their deadline; n < 0 lifts the limit.
func (c *Conn) SetWriteLimit(n int) {
	c.mu.Lock()
	c.wlimited, c.wlimit = n >= 0, n
	c.mu.Unlock()
	select {
	case c.wnotify <- struct{}{}:
	default:
	}
}

func (c *Conn) Write(p []byte) (int, error) {
	if c.WErr != nil {
		c.mu.Lock()
		i := c.nWAttempt
		c.nWAttempt++
		c.mu.Unlock()
		if e := c.WErr(i, p); e != nil {
			c.w.Log(c.Name+">", "tx-error", append([]byte(nil), p...), e.Error(), int64(i))
			return 0, e
		}
	}
	written := 0
	for {
		c.mu.Lock()
		if c.closed {
			c.mu.Unlock()
			return written, net.ErrClosed
		}
		if c.rerr != nil {
			e := c.rerr
			c.mu.Unlock()
			return written, e
		}
		k := len(p) - written
		if c.wlimited && !c.Packet && k > c.wlimit {
			k = c.wlimit
		}
		if k > 0 || len(p) == 0 {
			if c.wlimited && !c.Packet {
				c.wlimit -= k
			}
			i := c.nOut
			c.nOut++
			out := c.Out
			c.mu.Unlock()
			b := append([]byte(nil), p[written:written+k]...)
			c.w.Log(c.Name+">", "tx", b, "", 0)
			if out != nil {
				out(i, b)
			}
			written += k
			if written == len(p) {
				return written, nil
			}
			continue
		}
		// the window is full: like a socket, block until it opens, the deadline passes or the connection ends
		dl := c.wdl
		c.mu.Unlock()
		var tc <-chan time.Time
		var tm *time.Timer
		if !dl.IsZero() {
			d := time.Until(dl)
			if d <= 0 {
				c.w.Log(c.Name+">", "tx-timeout", nil, "", int64(written))
				return written, errTimeout
			}
			tm = time.NewTimer(d)
			tc = tm.C
		}
		select {
		case <-c.wnotify:
		case <-tc:
		case <-c.closedCh:
		}
		if tm != nil {
			tm.Stop()
		}
		Resume("simrt:write-wake:" + c.Name)
	}
}

func (c *Conn) Close() error {
	c.mu.Lock()
	if c.closed {
		c.mu.Unlock()
		return nil
	}
	c.closed = true
	close(c.closedCh)
	oc := c.OnClose
	c.mu.Unlock()
	c.w.Log(c.Name+">", "close", nil, "", 0)
	if oc != nil {
		oc()
	}
	return nil
}
func (c *Conn) LocalAddr() net.Addr                { return c.Local }
func (c *Conn) RemoteAddr() net.Addr               { return c.Remote }
func (c *Conn) SetDeadline(t time.Time) error      { c.SetWriteDeadline(t); return c.SetReadDeadline(t) }
func (c *Conn) SetReadDeadline(t time.Time) error  { c.mu.Lock(); c.rdl = t; c.mu.Unlock(); return nil }
func (c *Conn) SetWriteDeadline(t time.Time) error { c.mu.Lock(); c.wdl = t; c.mu.Unlock(); return nil }

// Listener hands accepted conns to the gateway.
type Listener struct {
	w      *World
	addr   string
	ch     chan net.Conn
	closed chan struct{}
	once   sync.Once
}

func (l *Listener) Accept() (net.Conn, error) {
	select {
	case c := <-l.ch:
		Resume("simrt:accept-wake")
		return c, nil
	case <-l.closed:
		Resume("simrt:accept-wake")
		return nil, l.w.Net.ErrClosedListener
	}
}
func (l *Listener) Close() error {
	l.once.Do(func() { close(l.closed); l.w.Log("listener", "close", nil, l.addr, 0) })
	return nil
}
func (l *Listener) Addr() net.Addr { return Addr{"udp", l.addr} }

// Push hands a new per-peer connection to Accept (driver only; never blocks).
func (l *Listener) Push(c net.Conn) bool {
	select {
	case <-l.closed:
		return false
	default:
	}
	select {
	case l.ch <- c:
		return true
	default:
		return false
	}
}
func (l *Listener) IsClosed() bool {
	select {
	case <-l.closed:
		return true
	default:
		return false
	}
}

// Net holds the hooks the harness installs.
type Net struct {
	w                 *World
	mu                sync.Mutex
	listeners         map[string]*Listener
	ErrClosedListener error // harness sets udp.ErrClosedListener
	// DialUDP serves net.Dial("udp", addr) of the client library.
	DialUDP func(addr string) (net.Conn, error)
	// DialTCP serves the gateway's broker dial.
	DialTCP func(ctx context.Context, addr string, timeout time.Duration) (net.Conn, error)
}

func newNet(w *World) *Net {
	return &Net{w: w, listeners: map[string]*Listener{}, ErrClosedListener: errors.New("udp: listener closed")}
}

// Listener returns the live listener bound at addr (nil if none).
func (n *Net) Listener(addr string) *Listener {
	n.mu.Lock()
	defer n.mu.Unlock()
	l := n.listeners[addr]
	if l != nil && l.IsClosed() {
		return nil
	}
	return l
}

// EverListened: has anything ever been bound at addr (the gateway may still be starting up)?
func (n *Net) EverListened(addr string) bool {
	n.mu.Lock()
	defer n.mu.Unlock()
	return n.listeners[addr] != nil
}

// UDPListenConfig replaces pion/udp.ListenConfig.
type UDPListenConfig struct{}

func (c *UDPListenConfig) Listen(network string, laddr *net.UDPAddr) (net.Listener, error) {
	w := cur.Load()
	if w == nil {
		return nil, errors.New("simrt: no world")
	}
	l := &Listener{w: w, addr: laddr.String(), ch: make(chan net.Conn, 64), closed: make(chan struct{})}
	w.Net.mu.Lock()
	w.Net.listeners[laddr.String()] = l
	w.Net.mu.Unlock()
	w.Log("listener", "listen", nil, laddr.String(), 0)
	return l, nil
}

// NetDial replaces net.Dial in the client library.
func NetDial(network, address string) (net.Conn, error) {
	w := cur.Load()
	if w == nil {
		return net.Dial(network, address)
	}
	if w.Net.DialUDP == nil {
		return nil, fmt.Errorf("simrt: dial %s: no route", address)
	}
	return w.Net.DialUDP(address)
}

// Dialer replaces net.Dialer for the gateway's broker connection.
type Dialer struct {
	Timeout time.Duration
}

func (d *Dialer) DialContext(ctx context.Context, network, address string) (net.Conn, error) {
	w := cur.Load()
	if w == nil {
		nd := &net.Dialer{Timeout: d.Timeout}
		return nd.DialContext(ctx, network, address)
	}
	if w.Net.DialTCP == nil {
		return nil, errors.New("simrt: connection refused")
	}
	return w.Net.DialTCP(ctx, address, d.Timeout)
}

// SignalNotify replaces os/signal.Notify inside bubbles (signals are not simulated).
func SignalNotify(c chan<- os.Signal, sig ...os.Signal) {}
