// Package simrt is the runtime the instrumented bisquitt code talks to: a cooperative
// scheduler on top of testing/synctest (virtual clock + quiescence), cooperative replacements
// for sync.Mutex/RWMutex/Map, timer seams with keyed jitter, select-order control and the
// network seams (net.go). One World per synctest bubble; exactly one seed decides everything.
package simrt

import (
	"container/heap"
	"fmt"
	"runtime"
	"sort"
	"strings"
	"sync"
	"sync/atomic"
	"testing/synctest"
	"time"
)

// ---------------------------------------------------------------------------------------------
// PRNG: splitmix64. The driver owns the only sequential stream; everybody else uses Keyed().

type Rng struct{ s uint64 }

func NewRng(seed uint64) *Rng { return &Rng{s: seed*0x9E3779B97F4A7C15 + 0x1234567} }
func (r *Rng) U64() uint64 {
	r.s += 0x9E3779B97F4A7C15
	z := r.s
	z = (z ^ (z >> 30)) * 0xBF58476D1CE4E5B9
	z = (z ^ (z >> 27)) * 0x94D049BB133111EB
	return z ^ (z >> 31)
}
func (r *Rng) Intn(n int) int {
	if n <= 0 {
		return 0
	}
	return int(r.U64() % uint64(n))
}
func (r *Rng) Float() float64 { return float64(r.U64()>>11) / float64(1<<53) }
func (r *Rng) Bool(p float64) bool { return r.Float() < p }

func hashStr(h uint64, s string) uint64 {
	for i := 0; i < len(s); i++ {
		h ^= uint64(s[i])
		h *= 0x100000001b3
	}
	h ^= 0xff
	h *= 0x100000001b3
	return h
}
func mix(x uint64) uint64 {
	x ^= x >> 33
	x *= 0xff51afd7ed558ccd
	x ^= x >> 33
	x *= 0xc4ceb9fe1a85ec53
	x ^= x >> 33
	return x
}

// ---------------------------------------------------------------------------------------------

// Rec is one history record. Canonical order: (T, Ch, N).
type Rec struct {
	T    int64  `json:"t"`  // virtual ns since world start
	Ch   string `json:"ch"` // channel
	N    int    `json:"n"`  // per-channel sequence
	Kind string `json:"k"`
	B    []byte `json:"b,omitempty"`
	S    string `json:"s,omitempty"`
	I    int64  `json:"i,omitempty"`
	Step int64  `json:"-"` // global driver step at which it was appended (not part of canon)
}

func (r Rec) String() string {
	s := fmt.Sprintf("%013d %-14s #%04d %-8s", r.T, r.Ch, r.N, r.Kind)
	if r.S != "" {
		s += " " + r.S
	}
	if r.B != nil {
		b := r.B
		if len(b) > 48 {
			s += fmt.Sprintf(" %x..(%d)", b[:48], len(b))
		} else {
			s += fmt.Sprintf(" %x", b)
		}
	}
	if r.I != 0 {
		s += fmt.Sprintf(" i=%d", r.I)
	}
	return s
}

type parked struct {
	site  string
	ch    chan int // closed = go on; value 2 = report your goroutine id and keep waiting
	seq   int
	epoch int64  // driver decision count at arrival
	goid  uint64 // filled on request (ties only)
	wake  bool   // parked by Resume (a wake-up / goroutine entry), not at an ordinary yield site
}

type event struct {
	at  time.Duration
	key string
	seq int
	run func()
}
type evheap []*event

func (h evheap) Len() int { return len(h) }
func (h evheap) Less(i, j int) bool {
	if h[i].at != h[j].at {
		return h[i].at < h[j].at
	}
	if h[i].key != h[j].key {
		return h[i].key < h[j].key
	}
	return h[i].seq < h[j].seq
}
func (h evheap) Swap(i, j int) { h[i], h[j] = h[j], h[i] }
func (h *evheap) Push(x any)   { *h = append(*h, x.(*event)) }
func (h *evheap) Pop() any     { o := *h; n := len(o); x := o[n-1]; o[n-1] = nil; *h = o[:n-1]; return x }

// SchedCfg controls Level-2 scheduling (yield sites).
type SchedCfg struct {
	Density      float64  `json:"density"`       // probability that a site outside Focus is enabled
	Focus        []string `json:"focus"`         // site prefixes (relpath or relpath:line)
	FocusDensity float64  `json:"focus_density"` // probability that a focus site is enabled
	MaxSteps     int64    `json:"max_steps"`     // cap on scheduler decisions (0 = default)
	StallProb    float64  `json:"stall_prob,omitempty"` // per decision: leave everything parked and let time reach the next timer
	MaxStall     time.Duration `json:"max_stall,omitempty"`
	StallAfterFrac float64     `json:"stall_after_frac,omitempty"` // the same as a fraction of the run's horizon (resolved by the harness)
	StallAfter   time.Duration `json:"stall_after,omitempty"` // no stalls before this virtual instant: the budget goes to the phase under study
	MaxStalls    int64         `json:"max_stalls,omitempty"` // budget per run (0 = unlimited): a node is slow now and then, not all the time
	// Overlap: when goroutines are parked AND a simulation event (a delivery, a peer action) is due,
	// the seed decides which goes first. Without it every goroutine runs until it blocks before the
	// next event is processed, so handlers reacting to events at different instants never overlap.
	Overlap bool `json:"overlap,omitempty"`
	// Sticky: probability that the goroutine released last is released again when it parks at its
	// next (ordinary) yield site, instead of a uniform choice among everything parked. Uniform choice
	// at every statement makes long uninterrupted stretches of one goroutine exponentially unlikely;
	// races of the form "A stops here, B runs a whole handler, A goes on" need exactly that.
	Sticky float64 `json:"sticky,omitempty"`
}

// World owns scheduling, the event queue and the history.
type World struct {
	Seed uint64
	T0   time.Time
	Cfg  SchedCfg

	mu       sync.Mutex // momentary only; never held across a park
	parked   []*parked
	pseq     int
	wake     chan struct{}
	q        evheap
	qseq     int
	rng      *Rng
	siteMemo map[string]bool
	counters map[string]int
	chanSeq  map[string]int
	hist     []Rec
	inDriver atomic.Bool // the driver goroutine is running (set by the driver only)
	driverID uint64      // its goroutine id
	draining atomic.Bool
	// LastArm is the virtual time of the latest AfterFunc arming by instrumented code (a retry timer
	// chain that outlives its session keeps re-arming: see C13)
	LastArm atomic.Int64
	vids    map[uint64]uint64 // goroutine id -> virtual id of timer-callback goroutines (see AfterFunc)

	Steps     int64 // scheduler decisions taken
	Parks     int64
	Events    int64
	SitesHit  map[string]int // site -> parks
	Switches  map[string]int // "siteA>siteB" pairs of consecutive releases (interleaving measure)
	lastSite  string
	StepCapHit bool
	Beat       func() // called every 100000 driver iterations, at most 300 times per run
	iters      int64
	beats      int
	Stalls     int64
	TieBreaks  int64 // goroutine-id requests (same-site arrivals within one decision)
	epoch      int64
	relEpoch   int64 // epoch in which the last release happened
	Overlaps   int64 // events run while goroutines were parked
	StalledFor time.Duration
	stalled    bool
	TraceOn    bool
	Trace      []string
	mutexWaiters int32

	Net *Net
}

var cur atomic.Pointer[World]

// Cur returns the live world or nil.
func Cur() *World { return cur.Load() }

// NewWorld must be called inside the bubble by its root goroutine (the driver).
func NewWorld(seed uint64, cfg SchedCfg) *World {
	w := &World{Seed: seed, T0: time.Now(), Cfg: cfg, wake: make(chan struct{}, 1), rng: NewRng(seed ^ 0xD1CE),
		siteMemo: map[string]bool{}, counters: map[string]int{}, vids: map[uint64]uint64{}, chanSeq: map[string]int{},
		SitesHit: map[string]int{}, Switches: map[string]int{}}
	if w.Cfg.MaxSteps == 0 {
		w.Cfg.MaxSteps = 400000
	}
	w.Net = newNet(w)
	w.driverID = Goid()
	w.inDriver.Store(true)
	cur.Store(w)
	return w
}

func (w *World) Close() { cur.CompareAndSwap(w, nil) }

// Now is virtual time since world start.
func (w *World) Now() time.Duration { return time.Since(w.T0) }

// Rng is the driver's sequential stream. Only the driver goroutine may use it.
func (w *World) Rng() *Rng { return w.rng }

// Keyed returns a uniform [0,1) value that depends only on the seed and the key parts.
func (w *World) Keyed(parts ...any) float64 {
	return float64(w.KeyedU64(parts...)>>11) / float64(1<<53)
}
func (w *World) KeyedU64(parts ...any) uint64 {
	h := uint64(0xcbf29ce484222325) ^ mix(w.Seed)
	for _, p := range parts {
		switch v := p.(type) {
		case string:
			h = hashStr(h, v)
		case int:
			h = mix(h ^ uint64(v)*0x9E3779B97F4A7C15)
		case int64:
			h = mix(h ^ uint64(v)*0x9E3779B97F4A7C15)
		case uint64:
			h = mix(h ^ v*0x9E3779B97F4A7C15)
		default:
			h = hashStr(h, fmt.Sprint(v))
		}
	}
	return mix(h)
}

// Counter returns a per-key counter value and increments it.
func (w *World) Counter(key string) int {
	w.mu.Lock()
	n := w.counters[key]
	w.counters[key] = n + 1
	w.mu.Unlock()
	return n
}

// Log appends a history record (callable from any goroutine).
func (w *World) Log(ch, kind string, b []byte, s string, i int64) {
	now := int64(w.Now())
	w.mu.Lock()
	n := w.chanSeq[ch]
	w.chanSeq[ch] = n + 1
	w.hist = append(w.hist, Rec{T: now, Ch: ch, N: n, Kind: kind, B: b, S: s, I: i, Step: w.Steps + w.Events})
	w.mu.Unlock()
}

// History returns the canonical history (sorted by time, channel, per-channel seq).
func (w *World) History() []Rec {
	w.mu.Lock()
	l := append([]Rec(nil), w.hist...)
	w.mu.Unlock()
	sort.SliceStable(l, func(i, j int) bool {
		if l[i].T != l[j].T {
			return l[i].T < l[j].T
		}
		if l[i].Ch != l[j].Ch {
			return l[i].Ch < l[j].Ch
		}
		return l[i].N < l[j].N
	})
	return l
}

func (w *World) siteEnabled(site string) bool {
	if w.Cfg.Density <= 0 && (len(w.Cfg.Focus) == 0 || w.Cfg.FocusDensity <= 0) {
		return false
	}
	w.mu.Lock()
	v, ok := w.siteMemo[site]
	w.mu.Unlock()
	if ok {
		return v
	}
	p := w.Cfg.Density
	for _, f := range w.Cfg.Focus {
		if strings.HasPrefix(site, f) {
			p = w.Cfg.FocusDensity
			break
		}
	}
	v = p > 0 && w.Keyed("site", site) < p
	w.mu.Lock()
	w.siteMemo[site] = v
	w.mu.Unlock()
	return v
}

// Yield is inserted before every statement of the instrumented packages.
func Yield(site string) {
	w := cur.Load()
	if w == nil || w.draining.Load() || !w.siteEnabled(site) || w.isDriver() {
		return
	}
	w.park(site)
}

// Resume is the always-on yield of every point at which a goroutine becomes runnable again (its
// first statement, after a blocking receive/select/lock/read/wait, a timer callback's start). A
// goroutine that wakes up does nothing before the driver lets it: at most one goroutine of the
// simulated world does real work at a time, so the order in which the Go runtime happens to run
// goroutines that are runnable together (and any preemption of them under machine load) cannot
// influence the execution. Independent of the level-2 density.
func Resume(site string) {
	w := cur.Load()
	if w == nil || w.draining.Load() || w.isDriver() {
		return
	}
	w.parkAs(site, true)
}

// YieldAlways parks whenever level-2 scheduling is on at all (used by seams: timer armed, lock handoff).
func YieldAlways(site string) {
	w := cur.Load()
	if w == nil || w.draining.Load() {
		return
	}
	if w.Cfg.Density <= 0 && w.Cfg.FocusDensity <= 0 {
		return
	}
	if w.isDriver() {
		return
	}
	w.park(site)
}

func (w *World) park(site string) { w.parkAs(site, false) }

func (w *World) parkAs(site string, wake bool) { w.parkAsKey(site, wake, 0) }

// parkAsKey: key != 0 is this arrival's rank among arrivals at the same site in the same batch (used
// instead of the goroutine id: callbacks of timers due at the very same nanosecond get their
// goroutines — and ids — in an order the runtime chooses; the order in which they were armed is ours)
func (w *World) parkAsKey(site string, wake bool, key uint64) {
	p := &parked{site: site, ch: make(chan int), wake: wake, goid: key}
	w.mu.Lock()
	w.pseq++
	p.seq = w.pseq
	p.epoch = w.epoch
	w.parked = append(w.parked, p)
	w.Parks++
	w.SitesHit[site]++
	w.mu.Unlock()
	w.poke()
	for {
		v, ok := <-p.ch
		if !ok {
			return
		}
		if v == 2 {
			// tie-break request (see breakTies): the goroutine id reflects creation order
			id := Goid()
			w.mu.Lock()
			if v, ok := w.vids[id]; ok {
				id = v // a timer callback: ranked by arming order, not by the id the runtime gave its goroutine
			}
			p.goid = id
			w.mu.Unlock()
		}
	}
}

// breakTies: goroutines that parked at the same site since the same driver decision arrived in
// an order the Go runtime chose (timers due at one instant, several waiters of one channel or
// lock, a goroutine and the one it has just woken up). Their order in the choice list must not
// depend on it: they are ordered by goroutine id — creation order, which the schedule itself
// determines — obtained on request, for ties only. Returns true if requests were sent (the
// caller waits for quiescence again).
func (w *World) breakTies() bool {
	// caller holds w.mu
	type key struct {
		site  string
		epoch int64
	}
	n := map[key]int{}
	for _, p := range w.parked {
		n[key{p.site, p.epoch}]++
	}
	var ask []*parked
	for _, p := range w.parked {
		if n[key{p.site, p.epoch}] > 1 && p.goid == 0 {
			ask = append(ask, p)
		}
	}
	if len(ask) == 0 {
		return false
	}
	w.TieBreaks += int64(len(ask))
	w.mu.Unlock()
	for _, p := range ask {
		p.ch <- 2
	}
	w.mu.Lock()
	return true
}

func (w *World) poke() {
	select {
	case w.wake <- struct{}{}:
	default:
	}
}

// At schedules fn to run in the driver at absolute virtual time at (callable from any goroutine).
// key must be stable across executions; ties are broken by key.
func (w *World) At(at time.Duration, key string, fn func()) {
	w.mu.Lock()
	w.qseq++
	heap.Push(&w.q, &event{at: at, key: key, seq: w.qseq, run: fn})
	w.mu.Unlock()
	w.poke()
}

// After schedules fn d from now.
func (w *World) After(d time.Duration, key string, fn func()) { w.At(w.Now()+d, key, fn) }

// Run is the driver loop; must be called from the bubble's root goroutine. Returns at `until`
// (virtual) or when the step cap is hit.
func (w *World) Run(until time.Duration) {
	for {
		// sign of life for the runner's watchdog in very long runs: bounded, so that a run which
		// spins without end still falls silent and is killed
		if w.iters++; w.iters%100000 == 0 && w.beats < 300 && w.Beat != nil {
			w.beats++
			w.Beat()
		}
		w.inDriver.Store(false)
		synctest.Wait()
		w.inDriver.Store(true)
		w.mu.Lock()
		w.epoch++ // everything that parks before the next quiescent point is one batch (see breakTies)
		if len(w.parked) > 0 && w.Cfg.StallProb > 0 && !w.stalled && (w.Cfg.MaxStalls == 0 || w.Stalls < w.Cfg.MaxStalls) && (w.Cfg.StallAfter == 0 || w.Now() >= w.Cfg.StallAfter) && w.rng.Float() < w.Cfg.StallProb {
			// stall (slow node): leave everything parked and let virtual time reach the next timer,
			// so that a timer can fire while another goroutine is half-way through an operation.
			now := w.Now()
			d := w.Cfg.MaxStall
			if d <= 0 {
				d = time.Second
			}
			if len(w.q) > 0 && w.q[0].at > now && w.q[0].at-now < d {
				d = w.q[0].at - now
			}
			if len(w.q) == 0 || w.q[0].at > now {
				w.Stalls++
				w.stalled = true
				if w.TraceOn {
					w.Trace = append(w.Trace, fmt.Sprintf("%d stall %v parked=%d", now, d, len(w.parked)))
				}
				w.mu.Unlock()
				// (a poke left over from the park that brought us here must not end the stall at once)
				select {
				case <-w.wake:
				default:
				}
				tm := time.NewTimer(d)
				w.inDriver.Store(false)
				select {
				case <-w.wake:
				case <-tm.C:
				}
				w.inDriver.Store(true)
				tm.Stop()
				w.StalledFor += w.Now() - now
				continue
			}
		}
		w.stalled = false
		if len(w.parked) > 0 && w.Cfg.Overlap && len(w.q) > 0 && w.q[0].at <= w.Now() && w.Steps < w.Cfg.MaxSteps && w.rng.Float() < 0.5 {
			// a due event overtakes the parked goroutines
			ev := heap.Pop(&w.q).(*event)
			w.Events++
			w.Overlaps++
			if w.TraceOn {
				w.Trace = append(w.Trace, fmt.Sprintf("%d event-first %s parked=%d", w.Now(), ev.key, len(w.parked)))
			}
			w.mu.Unlock()
			ev.run()
			continue
		}
		if len(w.parked) > 0 {
			if w.Steps >= w.Cfg.MaxSteps {
				w.StepCapHit = true
				w.mu.Unlock()
				w.releaseAll()
				continue
			}
			if w.breakTies() {
				w.mu.Unlock()
				continue // let the asked goroutines answer, then decide
			}
			sort.SliceStable(w.parked, func(i, j int) bool {
				a, b := w.parked[i], w.parked[j]
				if a.site != b.site {
					return a.site < b.site
				}
				if a.epoch == b.epoch && a.goid != 0 && b.goid != 0 {
					return a.goid < b.goid
				}
				return a.seq < b.seq
			})
			i := 0
			if len(w.parked) > 1 {
				if w.Cfg.Density <= 0 && w.Cfg.FocusDensity <= 0 {
					// event-level run (no level-2 exploration): goroutines proceed in the order in which
					// they became runnable — what an unperturbed Go scheduler would do, decided here.
					// (Also keeps a session's own order independent of what other sessions do: C15.)
					for j := 1; j < len(w.parked); j++ {
						if w.parked[j].epoch < w.parked[i].epoch {
							i = j // the list is sorted by (site, goroutine id / arrival) already
						}
					}
				} else {
					i = w.rng.Intn(len(w.parked))
					if w.Cfg.Sticky > 0 && w.rng.Float() < w.Cfg.Sticky {
						// go on with the goroutine released last, if it is here again: the only one that can
						// have reached an ordinary yield site since
						for j, q := range w.parked {
							if !q.wake && q.epoch == w.relEpoch {
								i = j
								break
							}
						}
					}
				}
			}
			p := w.parked[i]
			w.parked = append(w.parked[:i], w.parked[i+1:]...)
			w.Steps++
			if w.lastSite != "" && len(w.Switches) < 200000 {
				w.Switches[w.lastSite+">"+p.site]++
			}
			w.lastSite = p.site
			if w.TraceOn {
				var l []string
				for _, q := range w.parked {
					l = append(l, q.site)
				}
				w.Trace = append(w.Trace, fmt.Sprintf("%d pick=%s rest=%v", w.Now(), p.site, l))
			}
			w.relEpoch = w.epoch
			w.mu.Unlock()
			w.inDriver.Store(false)
			close(p.ch)
			continue
		}
		now := w.Now()
		if len(w.q) > 0 && w.q[0].at <= now {
			ev := heap.Pop(&w.q).(*event)
			w.Events++
			if w.TraceOn {
				w.Trace = append(w.Trace, fmt.Sprintf("%d event %s", now, ev.key))
			}
			w.mu.Unlock()
			// events run in the driver: they must never call instrumented code (inDriver stays true)
			ev.run()
			continue
		}
		if now >= until {
			w.mu.Unlock()
			return
		}
		next := until
		if len(w.q) > 0 && w.q[0].at < next {
			next = w.q[0].at
		}
		w.mu.Unlock()
		tm := time.NewTimer(next - now)
		w.inDriver.Store(false)
		select {
		case <-w.wake:
		case <-tm.C:
		}
		w.inDriver.Store(true)
		tm.Stop()
	}
}

func (w *World) releaseAll() {
	w.draining.Store(true)
	w.mu.Lock()
	ps := w.parked
	w.parked = nil
	w.mu.Unlock()
	for _, p := range ps {
		close(p.ch)
	}
}

// Drain switches level-2 scheduling off for good and releases everything parked.
func (w *World) Drain() {
	w.inDriver.Store(true)
	w.draining.Store(true)
	for {
		synctest.Wait()
		w.mu.Lock()
		n := len(w.parked)
		w.mu.Unlock()
		if n == 0 {
			return
		}
		w.releaseAll()
	}
}

// PendingEvents reports how many sim events are queued.
func (w *World) PendingEvents() int { w.mu.Lock(); defer w.mu.Unlock(); return len(w.q) }

// MutexWaiters reports goroutines blocked on a cooperative lock right now.
func (w *World) MutexWaiters() int { return int(atomic.LoadInt32(&w.mutexWaiters)) }

// Census lists, for every goroutine whose stack mentions substr, its innermost function that
// mentions substr (driver only).
func Census(substr string) (n int, funcs []string) {
	buf := make([]byte, 1<<20)
	for {
		m := runtime.Stack(buf, true)
		if m < len(buf) {
			buf = buf[:m]
			break
		}
		buf = make([]byte, 2*len(buf))
	}
	// only goroutines of this run: a worker process executes many runs, and goroutines that an earlier
	// run left behind (blocked for ever in its own bubble) are still listed by the runtime
	blocks := strings.Split(string(buf), "\n\n")
	bubble := ""
	if len(blocks) > 0 {
		hdr := strings.SplitN(blocks[0], "\n", 2)[0] // the calling goroutine comes first
		if i := strings.Index(hdr, "synctest bubble "); i >= 0 {
			bubble = strings.TrimRight(hdr[i:], "]:")
		}
	}
	for _, g := range blocks {
		if !strings.Contains(g, substr) {
			continue
		}
		if bubble != "" {
			hdr := strings.SplitN(g, "\n", 2)[0]
			if !strings.Contains(hdr, bubble+"]") && !strings.Contains(hdr, bubble+",") {
				continue
			}
		}
		lines := strings.Split(g, "\n")
		top := ""
		for _, l := range lines[1:] {
			if strings.Contains(l, substr) && !strings.HasPrefix(l, "\t") && !strings.HasPrefix(l, "created by") {
				top = strings.TrimSpace(l)
				break
			}
		}
		if top == "" {
			// only "created by" mentions it: a goroutine started by repo code running foreign code
			for _, l := range lines[1:] {
				if strings.HasPrefix(l, "created by") && strings.Contains(l, substr) {
					top = strings.TrimSpace(l)
				}
			}
		}
		if i := strings.LastIndex(top, "("); i > 0 && !strings.HasPrefix(top, "created by") {
			top = top[:i]
		}
		if i := strings.Index(top, " in goroutine"); i > 0 {
			top = top[:i]
		}
		n++
		if len(funcs) < 64 {
			funcs = append(funcs, top)
		}
	}
	sort.Strings(funcs)
	return
}

// ---------------------------------------------------------------------------------------------
// sync replacements. With no live world they fall back to the native primitives, so the repo's
// own tests run unchanged through the overlay.

type waiter struct{ ch chan struct{} }

type Mutex struct {
	native  sync.Mutex
	held    atomic.Bool
	isNat   atomic.Bool
	wmu     sync.Mutex
	waiters []*waiter
}

func (m *Mutex) Lock() {
	w := cur.Load()
	if w == nil {
		m.native.Lock()
		m.isNat.Store(true)
		return
	}
	for {
		if m.held.CompareAndSwap(false, true) {
			return
		}
		if w.isDriver() {
			// harness code in the driver contending with a parked holder: cannot wait.
			panic("simrt: driver would block on a cooperative mutex")
		}
		wt := &waiter{ch: make(chan struct{})}
		m.wmu.Lock()
		if !m.held.Load() { // released meanwhile
			m.wmu.Unlock()
			continue
		}
		m.waiters = append(m.waiters, wt)
		m.wmu.Unlock()
		atomic.AddInt32(&w.mutexWaiters, 1)
		<-wt.ch
		atomic.AddInt32(&w.mutexWaiters, -1)
		Resume("simrt:lock-wake")
	}
}

func (m *Mutex) TryLock() bool {
	if cur.Load() == nil {
		ok := m.native.TryLock()
		if ok {
			m.isNat.Store(true)
		}
		return ok
	}
	return m.held.CompareAndSwap(false, true)
}

func (m *Mutex) Unlock() {
	if m.isNat.Load() {
		m.isNat.Store(false)
		m.native.Unlock()
		return
	}
	m.wmu.Lock()
	m.held.Store(false)
	ws := m.waiters
	m.waiters = nil
	m.wmu.Unlock()
	for _, wt := range ws {
		close(wt.ch)
	}
}

// RWMutex keeps reader/writer semantics cooperatively.
type RWMutex struct {
	native  sync.RWMutex
	natW    atomic.Bool
	natR    atomic.Int32
	smu     sync.Mutex
	readers int
	writer  bool
	waiters []*waiter
}

func (m *RWMutex) wait(w *World) {
	wt := &waiter{ch: make(chan struct{})}
	m.waiters = append(m.waiters, wt)
	m.smu.Unlock()
	if w.isDriver() {
		panic("simrt: driver would block on a cooperative rwmutex")
	}
	atomic.AddInt32(&w.mutexWaiters, 1)
	<-wt.ch
	atomic.AddInt32(&w.mutexWaiters, -1)
	Resume("simrt:rwlock-wake")
}
func (m *RWMutex) wakeAll() {
	ws := m.waiters
	m.waiters = nil
	for _, wt := range ws {
		close(wt.ch)
	}
}
func (m *RWMutex) Lock() {
	w := cur.Load()
	if w == nil {
		m.native.Lock()
		m.natW.Store(true)
		return
	}
	for {
		m.smu.Lock()
		if !m.writer && m.readers == 0 {
			m.writer = true
			m.smu.Unlock()
			return
		}
		m.wait(w)
	}
}
func (m *RWMutex) Unlock() {
	if m.natW.Load() {
		m.natW.Store(false)
		m.native.Unlock()
		return
	}
	m.smu.Lock()
	m.writer = false
	m.wakeAll()
	m.smu.Unlock()
}
func (m *RWMutex) RLock() {
	w := cur.Load()
	if w == nil {
		m.native.RLock()
		m.natR.Add(1)
		return
	}
	for {
		m.smu.Lock()
		if !m.writer {
			m.readers++
			m.smu.Unlock()
			return
		}
		m.wait(w)
	}
}
func (m *RWMutex) RUnlock() {
	if m.natR.Load() > 0 {
		m.natR.Add(-1)
		m.native.RUnlock()
		return
	}
	m.smu.Lock()
	m.readers--
	if m.readers == 0 {
		m.wakeAll()
	}
	m.smu.Unlock()
}

// Map: insertion-ordered deterministic replacement for sync.Map (the subset bisquitt uses).
// Range starts at a seed-chosen rotation: every order sync.Map could produce for "first match"
// purposes is legal, so both ends are explored, deterministically.
type Map struct {
	mu   sync.Mutex
	keys []*mapEntry // insertion order; the first len(keys) elements of a backing array never change
	m    map[any]*mapEntry
}

type mapEntry struct {
	k       any
	v       atomic.Pointer[any]
	deleted atomic.Bool
}

func (e *mapEntry) load() any { return *e.v.Load() }

func (m *Map) Load(k any) (any, bool) {
	m.mu.Lock()
	defer m.mu.Unlock()
	if e, ok := m.m[k]; ok {
		return e.load(), true
	}
	return nil, false
}
func (m *Map) Store(k, v any) {
	m.mu.Lock()
	defer m.mu.Unlock()
	if m.m == nil {
		m.m = map[any]*mapEntry{}
	}
	if e, ok := m.m[k]; ok {
		e.v.Store(&v)
		return
	}
	e := &mapEntry{k: k}
	e.v.Store(&v)
	m.m[k] = e
	m.keys = append(m.keys, e)
}
func (m *Map) LoadOrStore(k, v any) (any, bool) {
	m.mu.Lock()
	defer m.mu.Unlock()
	if m.m == nil {
		m.m = map[any]*mapEntry{}
	}
	if e, ok := m.m[k]; ok {
		return e.load(), true
	}
	e := &mapEntry{k: k}
	e.v.Store(&v)
	m.m[k] = e
	m.keys = append(m.keys, e)
	return v, false
}
func (m *Map) LoadAndDelete(k any) (any, bool) {
	m.mu.Lock()
	e, ok := m.m[k]
	m.mu.Unlock()
	if !ok {
		return nil, false
	}
	v := e.load()
	m.Delete(k)
	return v, true
}
func (m *Map) Delete(k any) {
	m.mu.Lock()
	defer m.mu.Unlock()
	if e, ok := m.m[k]; ok {
		e.deleted.Store(true)
		delete(m.m, k)
		for i, x := range m.keys {
			if x == e {
				// a new array: iterations in progress keep their view
				m.keys = append(m.keys[:i:i], m.keys[i+1:]...)
				break
			}
		}
	}
}

// Range visits the entries in insertion order, rotated by a seeded amount half of the time
// (sync.Map promises no order). No copy and no lock per element: Store only appends beyond
// len(keys) and Delete builds a new array.
func (m *Map) Range(f func(k, v any) bool) {
	m.mu.Lock()
	keys := m.keys[:len(m.keys):len(m.keys)]
	m.mu.Unlock()
	rot := 0
	if w := cur.Load(); w != nil && len(keys) > 1 && !w.isDriver() {
		n := w.Counter("maprange")
		if w.Keyed("maprange", n) < 0.5 {
			rot = int(w.KeyedU64("maprot", n) % uint64(len(keys)))
		}
	}
	for i := range keys {
		e := keys[(i+rot)%len(keys)]
		if e.deleted.Load() {
			continue
		}
		if !f(e.k, e.load()) {
			return
		}
	}
}

// ---------------------------------------------------------------------------------------------
// time seams: the fake clock comes from synctest; these add a keyed sub-microsecond jitter so
// that no two timers tie by accident and the order of near-simultaneous timers is seed-decided.

func jitter(kind string) time.Duration {
	w := cur.Load()
	if w == nil {
		return 0
	}
	n := w.Counter("tj:" + kind)
	return time.Duration(int64(w.Keyed("tj", kind, n)*450) * 2) // even, < 1us
}

// HarnessJitter returns an odd number of nanoseconds in [1, 999]: harness timers (op release,
// actor gaps) never tie with code timers (even jitter) that start from the same instant. The Go
// runtime wakes goroutines whose timers expire at the same instant in an order nobody controls.
func (w *World) HarnessJitter(parts ...any) time.Duration {
	return time.Duration(int64(w.Keyed(append([]any{"hj"}, parts...)...)*499)*2 + 1)
}

// MaxJitter bounds what the seams add to any single timer.
const MaxJitter = time.Microsecond

func AfterFunc(d time.Duration, f func()) *time.Timer {
	var rank uint64
	if w := cur.Load(); w != nil {
		rank = uint64(w.Counter("af-armed")) + 1
		if !w.draining.Load() {
			w.LastArm.Store(int64(w.Now()))
		}
	}
	t := time.AfterFunc(d+jitter("af"), func() {
		if w := cur.Load(); w != nil {
			// the goroutines of callbacks that come due at the same nanosecond get their ids in an order
			// the Go runtime chooses: wherever goroutine ids break ties (two of them waiting for one lock)
			// a callback counts with its timer's arming order instead
			g := Goid()
			w.mu.Lock()
			w.vids[g] = 1<<40 + rank
			w.mu.Unlock()
			defer func() {
				w.mu.Lock()
				delete(w.vids, g)
				w.mu.Unlock()
			}()
			if !w.draining.Load() && !w.isDriver() {
				w.parkAsKey("simrt:timer-fired", true, rank)
			}
		}
		f()
	})
	YieldAlways("simrt:timer-armed")
	return t
}
func After(d time.Duration) <-chan time.Time { return time.After(d + jitter("a")) }
func NewTicker(d time.Duration) *time.Ticker {
	if cur.Load() == nil {
		return time.NewTicker(d)
	}
	return time.NewTicker(d + jitter("tk"))
}
func NewTimer(d time.Duration) *time.Timer { return time.NewTimer(d + jitter("tm")) }

// ---------------------------------------------------------------------------------------------
// select control (see instr/selrw.go)

func SelOrder(site string, n int) []int {
	r := make([]int, n)
	for i := range r {
		r[i] = i
	}
	w := cur.Load()
	if w == nil {
		return r
	}
	k := w.Counter("sel:" + site)
	for i := n - 1; i > 0; i-- {
		j := int(w.KeyedU64("sel", site, k, i) % uint64(i+1))
		r[i], r[j] = r[j], r[i]
	}
	return r
}

func ZeroOf[T any](ch <-chan T) (z T) { return }

func TryRecv[T any](ch <-chan T) (v T, ok bool, ready bool) {
	select {
	case v, ok = <-ch:
		return v, ok, true
	default:
		return v, false, false
	}
}

func TrySend[T any](ch chan<- T, x T) bool {
	select {
	case ch <- x:
		return true
	default:
		return false
	}
}

// ---------------------------------------------------------------------------------------------
// knobs

var maxTopicAlias atomic.Uint32

// MaxTopicAlias replaces packets.MaxTopicAlias in gateway/handler1.go (shrunken id space runs).
func MaxTopicAlias() uint16 {
	if v := maxTopicAlias.Load(); v != 0 {
		return uint16(v)
	}
	return 0xFFFE
}
func SetMaxTopicAlias(v uint16) { maxTopicAlias.Store(uint32(v)) }

// RawHistory returns the history in append (execution) order.
func (w *World) RawHistory() []Rec {
	w.mu.Lock()
	defer w.mu.Unlock()
	return append([]Rec(nil), w.hist...)
}

// Goid returns the runtime id of the calling goroutine (parsed from its stack header; a few
// microseconds — for rare bookkeeping only: who is dialling).
func Goid() uint64 {
	var buf [64]byte
	n := runtime.Stack(buf[:], false)
	var id uint64
	for _, c := range buf[len("goroutine "):n] {
		if c < '0' || c > '9' {
			break
		}
		id = id*10 + uint64(c-'0')
	}
	return id
}

// isDriver: is the caller the driver goroutine? The flag alone is not enough: while it is set,
// another goroutine (just spawned, or just woken up by an event) can get the processor when the
// Go runtime preempts the driver, and its yields must not be skipped.
func (w *World) isDriver() bool {
	return w.inDriver.Load() && Goid() == w.driverID
}
