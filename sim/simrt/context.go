package simrt

import (
	"context"
	"sync"
	"time"
)

// Deterministic stand-ins for context.WithCancel / WithTimeout / WithDeadline.
//
// Semantics are the standard library's. The one difference is the order in which a cancellation
// reaches the children: the standard library keeps them in a map (random iteration order per
// process), so the goroutines waiting on different child contexts of one parent — every session of
// a gateway at shutdown, every helper of a session at its end — become runnable in an order no seed
// controls. Here children are kept, and cancelled, in creation order.

type cancelCtx struct {
	parent context.Context

	mu       sync.Mutex // momentary, never held across a park
	done     chan struct{}
	err      error
	children []*cancelCtx

	deadline    time.Time
	hasDeadline bool
	stopTimer   func() bool
}

func (c *cancelCtx) Deadline() (time.Time, bool) {
	if c.hasDeadline {
		return c.deadline, true
	}
	return c.parent.Deadline()
}
func (c *cancelCtx) Done() <-chan struct{} { return c.done }
func (c *cancelCtx) Err() error {
	c.mu.Lock()
	defer c.mu.Unlock()
	return c.err
}

type ctxKey struct{}

var ownKey ctxKey

// Value answers ownKey with the context itself so that a descendant can find its nearest
// cancelCtx ancestor through foreign wrappers (context.WithValue).
func (c *cancelCtx) Value(k any) any {
	if k == any(&ownKey) {
		return c
	}
	return c.parent.Value(k)
}

func (c *cancelCtx) String() string { return "simrt.cancelCtx" }

func newCancelCtx(parent context.Context) *cancelCtx {
	if parent == nil {
		panic("cannot create context from nil parent")
	}
	c := &cancelCtx{parent: parent, done: make(chan struct{})}
	if parent.Done() == nil {
		return c // never cancelled
	}
	if p, ok := parent.Value(&ownKey).(*cancelCtx); ok && p.done == parent.Done() {
		p.mu.Lock()
		if p.err != nil {
			err := p.err
			p.mu.Unlock()
			c.cancel(false, err)
		} else {
			p.children = append(p.children, c)
			p.mu.Unlock()
		}
		return c
	}
	// foreign parent
	select {
	case <-parent.Done():
		c.cancel(false, parent.Err())
		return c
	default:
	}
	go func() {
		select {
		case <-parent.Done():
			c.cancel(false, parent.Err())
		case <-c.done:
		}
	}()
	return c
}

func (c *cancelCtx) cancel(removeFromParent bool, err error) {
	c.mu.Lock()
	if c.err != nil {
		c.mu.Unlock()
		return
	}
	c.err = err
	close(c.done)
	children := c.children
	c.children = nil
	stop := c.stopTimer
	c.stopTimer = nil
	c.mu.Unlock()
	for _, ch := range children {
		ch.cancel(false, err)
	}
	if stop != nil {
		stop()
	}
	if removeFromParent {
		if p, ok := c.parent.Value(&ownKey).(*cancelCtx); ok {
			p.mu.Lock()
			for i, x := range p.children {
				if x == c {
					p.children = append(p.children[:i:i], p.children[i+1:]...)
					break
				}
			}
			p.mu.Unlock()
		}
	}
}

// WithCancel replaces context.WithCancel.
func WithCancel(parent context.Context) (context.Context, context.CancelFunc) {
	c := newCancelCtx(parent)
	return c, func() { c.cancel(true, context.Canceled) }
}

// WithDeadline replaces context.WithDeadline.
func WithDeadline(parent context.Context, d time.Time) (context.Context, context.CancelFunc) {
	if cur, ok := parent.Deadline(); ok && cur.Before(d) {
		return WithCancel(parent)
	}
	c := newCancelCtx(parent)
	c.deadline, c.hasDeadline = d, true
	dur := time.Until(d)
	if dur <= 0 {
		c.cancel(true, context.DeadlineExceeded)
		return c, func() { c.cancel(false, context.Canceled) }
	}
	// (AfterFunc may park: no lock held across it)
	t := AfterFunc(dur, func() { c.cancel(true, context.DeadlineExceeded) })
	c.mu.Lock()
	if c.err == nil {
		c.stopTimer = t.Stop
		c.mu.Unlock()
	} else {
		c.mu.Unlock()
		t.Stop()
	}
	return c, func() { c.cancel(true, context.Canceled) }
}

// WithTimeout replaces context.WithTimeout.
func WithTimeout(parent context.Context, timeout time.Duration) (context.Context, context.CancelFunc) {
	return WithDeadline(parent, time.Now().Add(timeout))
}
