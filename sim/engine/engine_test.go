package engine

import (
	"testing"

	"verifsim/world"
)

func TestWorker(t *testing.T) { world.WorkerMain(t) }
